"""Parser for rustc's `-Zunpretty=mir` text (the subset html2text's integer code uses).

parse_mir(text) -> dict name -> Function
Function: name, args [(local, type)], ret type, locals {idx: type}, debug {name: place-text},
          blocks {bbN: Block(stmts [Stmt], term Term, cleanup bool)}
Statements are kept as small tuples:
  ('assign', place, rvalue)     place = Place(local, [proj...]); rvalue = tuple described below
  ('nop',)
Rvalues:
  ('use', operand)              operand = ('copy'|'move', Place) | ('const', text, type)
  ('binop', op, a, b)           op in Add Sub Mul Div Rem Eq Ne Lt Le Gt Ge BitAnd BitOr BitXor Shl Shr
                                 and AddWithOverflow SubWithOverflow MulWithOverflow, Offset ...
  ('unop', op, a)               Not Neg
  ('cast', operand, type, kind)
  ('ref', mutability, Place)
  ('discriminant', Place)
  ('tuple', [operands])
  ('adt', path, variant|None, [(fieldname|None, operand)])
  ('len', Place) / ('other', text)
Terminators:
  ('goto', bb) ('return',) ('unreachable',) ('resume',)
  ('switch', operand, [(value, bb)], otherwise|None)
  ('assert', expected(bool), operand, msg, success_bb)
  ('call', dest Place|None, callee text, [operands], return_bb|None)
  ('drop', Place, bb)
"""
import re


class Place:
    __slots__ = ("local", "proj")

    def __init__(self, local, proj):
        self.local = local
        self.proj = proj  # list of ('deref',) ('field', idx, type) ('downcast', name) ('index', local) ('constindex', n)

    def __repr__(self):
        return "Place(_%d%s)" % (self.local, "".join(
            "." + (p[0] if p[0] != "field" else str(p[1])) for p in self.proj))


class Block:
    def __init__(self, name, cleanup):
        self.name = name
        self.cleanup = cleanup
        self.stmts = []
        self.term = None
        self.raw = []


class Function:
    def __init__(self, name, sig):
        self.name = name
        self.sig = sig
        self.args = []
        self.ret = None
        self.locals = {}
        self.debug = {}
        self.blocks = {}
        self.order = []


INT_TYPES = {"i8": (8, True), "i16": (16, True), "i32": (32, True), "i64": (64, True), "i128": (128, True),
             "isize": (64, True), "u8": (8, False), "u16": (16, False), "u32": (32, False), "u64": (64, False),
             "u128": (128, False), "usize": (64, False), "char": (32, False)}


def split_top(s, sep=","):
    """Split on sep at nesting depth 0 of () <> [] {} (ignores '->' arrows and string literals)."""
    out, depth, cur, i, instr = [], 0, [], 0, False
    while i < len(s):
        c = s[i]
        if instr:
            cur.append(c)
            if c == "\\" and i + 1 < len(s):
                cur.append(s[i + 1])
                i += 1
            elif c == '"':
                instr = False
        elif c == '"':
            instr = True
            cur.append(c)
        elif c in "([{<":
            depth += 1
            cur.append(c)
        elif c in ")]}":
            depth -= 1
            cur.append(c)
        elif c == ">":
            if i > 0 and s[i - 1] in "-=":
                cur.append(c)  # '->' / '=>'
            else:
                depth -= 1
                cur.append(c)
        elif c == sep and depth == 0:
            out.append("".join(cur).strip())
            cur = []
        else:
            cur.append(c)
        i += 1
    last = "".join(cur).strip()
    if last:
        out.append(last)
    return out


def parse_place(text):
    """Parse a MIR place expression such as `_5`, `(*_2)`, `((*_1).0: &usize)`, `((_10 as Some).0: T)`, `_5[_6]`."""
    t = text.strip()
    # strip redundant outer parens
    m = re.fullmatch(r"_(\d+)", t)
    if m:
        return Place(int(m.group(1)), [])
    if t.startswith("(*") and t.endswith(")") and _balanced(t[1:-1]):
        inner = parse_place(t[2:-1])
        return Place(inner.local, inner.proj + [("deref",)])
    # (BASE.N: TYPE)
    if t.startswith("(") and t.endswith(")") and _balanced(t[1:-1]):
        body = t[1:-1]
        # find top-level ':' that separates the type (first ': ' at depth 0)
        idx = _find_top(body, ": ")
        if idx != -1:
            left, ty = body[:idx], body[idx + 2:]
            k = left.rfind(".")
            base, fld = left[:k], left[k + 1:]
            if fld.isdigit():
                inner = parse_place(base)
                return Place(inner.local, inner.proj + [("field", int(fld), ty.strip())])
        m = re.fullmatch(r"(.*) as (\w+)", body)
        if m:
            inner = parse_place(m.group(1))
            return Place(inner.local, inner.proj + [("downcast", m.group(2))])
        return parse_place(body)
    m = re.fullmatch(r"(.*)\[_(\d+)\]", t)
    if m:
        inner = parse_place(m.group(1))
        return Place(inner.local, inner.proj + [("index", int(m.group(2)))])
    m = re.fullmatch(r"(.*)\[(-?\d+) of (\d+)\]", t)
    if m:
        inner = parse_place(m.group(1))
        return Place(inner.local, inner.proj + [("constindex", int(m.group(2)))])
    raise ValueError("cannot parse place: %r" % text)


def _match_back(s, close_idx, op, cl):
    """Index of the bracket `op` matching the closing bracket at close_idx (scanning backwards)."""
    depth = 0
    i = close_idx
    while i >= 0:
        c = s[i]
        if c in ")]}":
            depth += 1
        elif c in "([{":
            depth -= 1
            if depth == 0:
                return i if c == op else None
        i -= 1
    return None


def _balanced(s):
    d = 0
    for i, c in enumerate(s):
        if c in "([{":
            d += 1
        elif c in ")]}":
            d -= 1
            if d < 0:
                return False
    return d == 0


def _find_top(s, needle):
    d = 0
    i = 0
    instr = False
    while i < len(s):
        c = s[i]
        if instr:
            if c == "\\":
                i += 2
                continue
            if c == '"':
                instr = False
            i += 1
            continue
        if c == '"':
            instr = True
        elif c in "([{<":
            d += 1
        elif c in ")]}":
            d -= 1
        elif c == ">" and not (i > 0 and s[i - 1] in "-="):
            d -= 1
        if d == 0 and s.startswith(needle, i):
            return i
        i += 1
    return -1


def parse_operand(text):
    t = text.strip()
    if t.startswith("copy "):
        return ("copy", parse_place(t[5:]))
    if t.startswith("move "):
        return ("move", parse_place(t[5:]))
    if t.startswith("no_retag "):
        return parse_operand(t[len("no_retag "):])
    if t.startswith("const "):
        body = t[6:].strip()
        # pattern-type constants (`const 2_u64 is 1..`, the payload of NonZero<u64>): the value is the integer
        body = re.sub(r"^(-?\d+_\w+) is [^ ]+$", r"\1", body)
        m = re.fullmatch(r"(-?\d+)_(\w+)", body)
        if m:
            return ("const", m.group(1), m.group(2))
        if body in ("true", "false"):
            return ("const", body, "bool")
        m = re.fullmatch(r"'(.*)'", body)
        if m:
            return ("const", body, "char")
        return ("const", body, None)
    # a function item named without `const` (elements of tuple aggregates: `(skip_optional_whitespace, move _31)`)
    if re.fullmatch(r"[A-Za-z][\w]*(::[A-Za-z_][\w]*)*", t) and not re.fullmatch(r"_\d+", t):
        return ("const", t, None)
    # bare place (rare)
    return ("copy", parse_place(t))


BINOPS = {"Add", "Sub", "Mul", "Div", "Rem", "Eq", "Ne", "Lt", "Le", "Gt", "Ge", "BitAnd", "BitOr", "BitXor",
          "Shl", "Shr", "AddWithOverflow", "SubWithOverflow", "MulWithOverflow", "AddUnchecked", "SubUnchecked",
          "MulUnchecked", "Cmp", "Offset"}


def parse_rvalue(text):
    t = text.strip()
    m = re.fullmatch(r"(\w+)\((.*)\)", t, re.S)
    if m and m.group(1) in BINOPS:
        a, b = split_top(m.group(2))
        return ("binop", m.group(1), parse_operand(a), parse_operand(b))
    if m and m.group(1) in ("Not", "Neg"):
        return ("unop", m.group(1), parse_operand(m.group(2)))
    if m and m.group(1) == "discriminant":
        return ("discriminant", parse_place(m.group(2)))
    if m and m.group(1) in ("Len", "PtrMetadata"):
        try:
            return ("len", parse_operand(m.group(2)))
        except ValueError:
            return ("other", t)
    m = re.fullmatch(r"(.*) as (.*) \((\w+(?:\(.*\))?)\)", t)
    if m:
        return ("cast", parse_operand(m.group(1)), m.group(2).strip(), m.group(3))
    if t.startswith("&mut "):
        return ("ref", "mut", parse_place(t[5:]))
    if t.startswith("&raw "):
        return ("other", t)
    if t.startswith("&"):
        return ("ref", "shared", parse_place(t[1:]))
    if t.startswith("copy ") or t.startswith("move ") or t.startswith("const ") or t.startswith("no_retag "):
        try:
            return ("use", parse_operand(t))
        except ValueError:
            return ("other", t)
    if t.startswith("(") and t.endswith(")") and _balanced(t[1:-1]):
        parts = split_top(t[1:-1])
        try:
            return ("tuple", [parse_operand(p) for p in parts])
        except ValueError:
            return ("other", t)
    if t == "()":
        return ("tuple", [])
    if t.startswith("[") and t.endswith("]") and _balanced(t[1:-1]) and "; " not in t:
        try:
            return ("array", [parse_operand(p) for p in split_top(t[1:-1])])
        except ValueError:
            return ("other", t)
    # struct literal  Path { f: op, ... }   (Path may be `{closure@file:l:c: l:c}`)
    if t.endswith("}"):
        k = _match_back(t, len(t) - 1, "{", "}")
        if k is not None and k > 0:
            path = t[:k].strip()
            body = t[k + 1:-1].strip()
            fields = []
            ok = bool(path)
            for part in split_top(body):
                mm = re.match(r"(\w+): (.*)", part, re.S)
                if not mm:
                    ok = False
                    break
                try:
                    fields.append((mm.group(1), parse_operand(mm.group(2))))
                except ValueError:
                    ok = False
                    break
            if ok:
                return ("adt", path, None, fields)
    # enum variant / tuple struct constructor  Path::Variant(op, ...)
    if t.endswith(")"):
        k = _match_back(t, len(t) - 1, "(", ")")
        if k is not None and k > 0 and "::" in t[:k]:
            path = t[:k].strip()
            try:
                ops = [(None, parse_operand(p)) for p in split_top(t[k + 1:-1])]
                return ("adt", path, path.split("::")[-1], ops)
            except ValueError:
                return ("other", t)
    # unit variant  Path::Variant
    if "::" in t and not t.endswith(")"):
        return ("adt", t, t.split("::")[-1], [])
    return ("other", t)


def parse_targets(text):
    """`[return: bb1, unwind: bb2]` / `[success: bb3, unwind continue]` / `bb5`."""
    res = {}
    t = text.strip()
    if t.startswith("["):
        for part in split_top(t[1:-1]):
            m = re.match(r"(\w+): (bb\d+)", part)
            if m:
                res[m.group(1)] = m.group(2)
    else:
        m = re.match(r"(bb\d+)", t)
        if m:
            res["return"] = m.group(1)
    return res


def parse_terminator(text):
    t = text.strip().rstrip(";").strip()
    if t == "return":
        return ("return",)
    if t == "unreachable":
        return ("unreachable",)
    if t.startswith("resume") or t.startswith("terminate"):
        return ("resume",)
    m = re.fullmatch(r"goto -> (bb\d+)", t)
    if m:
        return ("goto", m.group(1))
    m = re.fullmatch(r"switchInt\((.*)\) -> \[(.*)\]", t, re.S)
    if m:
        cases, otherwise = [], None
        for part in split_top(m.group(2)):
            k, v = part.split(":")
            k, v = k.strip(), v.strip()
            if k == "otherwise":
                otherwise = v
            else:
                cases.append((int(k), v))
        return ("switch", parse_operand(m.group(1)), cases, otherwise)
    m = re.fullmatch(r"assert\((.*)\) -> (.*)", t, re.S)
    if m:
        args = split_top(m.group(1))
        cond = args[0].strip()
        expected = True
        if cond.startswith("!"):
            expected = False
            cond = cond[1:]
        msg = args[1] if len(args) > 1 else ""
        tg = parse_targets(m.group(2))
        return ("assert", expected, parse_operand(cond), msg, tg.get("success"))
    m = re.fullmatch(r"drop\((.*)\) -> (.*)", t, re.S)
    if m:
        tg = parse_targets(m.group(2))
        return ("drop", parse_place(m.group(1)), tg.get("return"))
    # call:  DEST = callee(args) -> [return: bbN, unwind ...]   or   callee(args) -> unwind continue
    idx = _find_top(t, " -> ")
    if idx != -1:
        left, right = t[:idx], t[idx + 4:]
        tg = parse_targets(right) if right.strip().startswith("[") else {}
        dest = None
        eq = _find_top(left, " = ")
        if eq != -1:
            dest = parse_place(left[:eq])
            left = left[eq + 3:]
        k = left.rfind("(")
        # find the '(' that opens the argument list: last top-level '('
        depth = 0
        open_idx = None
        for i in range(len(left) - 1, -1, -1):
            c = left[i]
            if c == ")":
                depth += 1
            elif c == "(":
                depth -= 1
                if depth == 0:
                    open_idx = i
                    break
        if open_idx is None:
            return ("other", t)
        callee = left[:open_idx].strip()
        argtext = left[open_idx + 1:-1]
        args = []
        for a_ in (split_top(argtext) if argtext.strip() else []):
            try:
                args.append(parse_operand(a_))
            except ValueError:
                args.append(("const", a_.strip(), None))  # e.g. a function item passed by name
        return ("call", dest, callee, args, tg.get("return"))
    return ("other", t)


FN_RE = re.compile(r"^fn (.+?)\((.*)\) -> (.+) \{$")
FN_RE_UNIT = re.compile(r"^fn (.+?)\((.*)\) \{$")


def parse_mir(text, want=None):
    """Parse all functions (or only those whose name matches the regex `want`)."""
    funcs = {}
    lines = text.split("\n")
    i = 0
    n = len(lines)
    wre = re.compile(want) if want else None
    while i < n:
        line = lines[i]
        if line.startswith("const ") and line.endswith("= {") and "::promoted[" in line:
            j = i + 1
            while j < n and lines[j] != "}":
                j += 1
            m = re.match(r"const (.*?::promoted\[\d+\]): (.*) = \{$", line)
            if m and (wre is None or wre.search(m.group(1))):
                f = Function(m.group(1), line)
                f.ret = m.group(2)
                _parse_body(f, lines[i + 1:j])
                funcs.setdefault("const " + m.group(1), f)
            i = j + 1
            continue
        if line.startswith("fn "):
            m = FN_RE.match(line) or FN_RE_UNIT.match(line)
            # collect body until a line that is exactly "}"
            j = i + 1
            while j < n and lines[j] != "}":
                j += 1
            if m:
                name = m.group(1)
                if wre is None or wre.search(name):
                    f = Function(name, line)
                    f.ret = m.group(3) if m.lastindex and m.lastindex >= 3 else "()"
                    for a in split_top(m.group(2)):
                        mm = re.match(r"_(\d+): (.*)", a, re.S)
                        if mm:
                            f.args.append((int(mm.group(1)), mm.group(2).strip()))
                            f.locals[int(mm.group(1))] = mm.group(2).strip()
                    _parse_body(f, lines[i + 1:j])
                    key = name
                    k = 2
                    while key in funcs:
                        key = "%s#%d" % (name, k)
                        k += 1
                    funcs[key] = f
            i = j + 1
        else:
            i += 1
    return funcs


def _parse_body(f, lines):
    cur = None
    pending = None
    for raw in lines:
        line = raw.strip()
        if not line:
            continue
        m = re.match(r"let (?:mut )?_(\d+): (.*);$", line)
        if m and cur is None:
            f.locals[int(m.group(1))] = m.group(2).strip()
            continue
        m = re.match(r"debug (\S+) => (.*);$", line)
        if m and cur is None:
            f.debug.setdefault(m.group(1), m.group(2).strip())
            continue
        m = re.match(r"(bb\d+)( \(cleanup\))?: \{$", line)
        if m:
            cur = Block(m.group(1), bool(m.group(2)))
            f.blocks[cur.name] = cur
            f.order.append(cur.name)
            pending = None
            continue
        if cur is None:
            continue
        if line == "}":
            if cur.stmts and cur.term is None:
                pass
            cur = None
            continue
        # statements may span lines until ';'
        if pending is not None:
            pending += " " + line
        else:
            pending = line
        if not pending.endswith(";"):
            continue
        stmt = pending
        pending = None
        cur.raw.append(stmt)
        body = stmt[:-1].strip()
        if body.startswith(("StorageLive", "StorageDead", "FakeRead", "PlaceMention", "AscribeUserType", "Coverage",
                            "nop", "Retag", "ConstEvalCounter", "BackwardIncompatibleDropHint")):
            continue
        is_term = (body.startswith(("goto ->", "switchInt(", "return", "unreachable", "resume", "drop(", "assert(",
                                    "terminate", "falseEdge", "falseUnwind"))
                   or _find_top(body, " -> ") != -1)
        if is_term:
            cur.term = parse_terminator(body)
            continue
        eq = _find_top(body, " = ")
        if eq == -1:
            cur.stmts.append(("other", body))
            continue
        try:
            place = parse_place(body[:eq])
            rv = parse_rvalue(body[eq + 3:])
            cur.stmts.append(("assign", place, rv))
        except ValueError as e:
            cur.stmts.append(("other", body))


if __name__ == "__main__":
    import sys
    txt = open(sys.argv[1]).read()
    fs = parse_mir(txt, sys.argv[2] if len(sys.argv) > 2 else None)
    others = 0
    total = 0
    for name, f in fs.items():
        for b in f.blocks.values():
            for s in b.stmts:
                total += 1
                if s[0] == "other" or (s[0] == "assign" and s[2][0] == "other"):
                    others += 1
                    if len(sys.argv) > 3:
                        print("OTHER", name[:40], s)
            if b.term is None or b.term[0] == "other":
                others += 1
                if len(sys.argv) > 3:
                    print("TERM?", name[:40], b.name, b.term, b.raw[-1:] )
    print("functions", len(fs), "statements", total, "unparsed", others)
