"""Symbolic executor for html2text's MIR (integer / structural code), deciding with Z3.

The crate's own code is executed from the MIR that rustc emits for /repo's
current source; std library calls are replaced by summaries (integer
arithmetic with Rust's panic conditions, min/max, Option/Vec/iterator models
over vectors of *concrete length* whose elements are symbolic).  Anything
without a summary returns an unconstrained value of its type ("havoc") and is
listed in the evidence.
"""
import os
import sys
import re
import time
import z3

from mir import INT_TYPES, Place


# ----------------------------------------------------------------------------
# values
# ----------------------------------------------------------------------------

class VInt:
    __slots__ = ("e", "bits", "signed")

    def __init__(self, e, bits, signed):
        self.e, self.bits, self.signed = e, bits, signed

    def __repr__(self):
        return "VInt(%s:%s%d)" % (z3.simplify(self.e), "i" if self.signed else "u", self.bits)


class VBool:
    __slots__ = ("e",)

    def __init__(self, e):
        self.e = e

    def __repr__(self):
        return "VBool(%s)" % z3.simplify(self.e)


class VUnit:
    def __repr__(self):
        return "()"


class VAgg:
    """tuple / struct / enum variant with a concrete variant."""
    __slots__ = ("path", "variant", "fields", "names")

    def __init__(self, path, variant, fields, names=None):
        self.path, self.variant, self.fields, self.names = path, variant, list(fields), names

    def __repr__(self):
        return "VAgg(%s%s %r)" % (self.path, ("::" + self.variant) if self.variant else "", self.fields)


class VVec:
    """Vec / array of concrete length; elements are values."""
    __slots__ = ("elems", "ety")

    def __init__(self, elems, ety=None):
        self.elems, self.ety = tuple(elems), ety

    def __repr__(self):
        return "VVec(%r)" % (list(self.elems),)


class VSlice:
    __slots__ = ("vec", "start", "end")

    def __init__(self, vec, start, end):
        self.vec, self.start, self.end = vec, start, end


class VIter:
    __slots__ = ("kind", "src", "pos", "extra")

    def __init__(self, kind, src, pos, extra=None):
        self.kind, self.src, self.pos, self.extra = kind, src, pos, extra


class VRef:
    """('local', frame, local, proj) | ('cell', id) | ('elem', vecref_or_value, VInt) | ('val', value)"""
    __slots__ = ("kind", "a", "b", "c")

    def __init__(self, kind, a=None, b=None, c=None):
        self.kind, self.a, self.b, self.c = kind, a, b, c

    def __repr__(self):
        return "VRef(%s,%r,%r)" % (self.kind, self.a, self.b)


class VOpaque:
    """Unknown value of type `ty`; projections are materialised lazily (consistent across paths)."""
    __slots__ = ("ty", "name", "memo", "over")

    def __init__(self, ty, name, memo=None, over=None):
        self.ty, self.name = ty, name
        self.memo = memo if memo is not None else {}
        self.over = over if over is not None else {}

    def __repr__(self):
        return "VOpaque(%s)" % self.name


class PathEnd(Exception):
    pass


def _ext(x, signed, extra):
    return z3.SignExt(extra, x) if signed else z3.ZeroExt(extra, x)


def add_ok(x, y, signed):
    """x + y does not overflow (portable SMT-LIB encoding)."""
    n = x.size()
    wide = _ext(x, signed, 1) + _ext(y, signed, 1)
    return wide == _ext(x + y, signed, 1)


def sub_ok(x, y, signed):
    n = x.size()
    wide = _ext(x, signed, 1) - _ext(y, signed, 1)
    if not signed:
        return z3.UGE(x, y)
    return wide == _ext(x - y, True, 1)


def mul_ok(x, y, signed):
    n = x.size()
    wide = _ext(x, signed, n) * _ext(y, signed, n)
    return wide == _ext(x * y, signed, n)


# ----------------------------------------------------------------------------
# helpers
# ----------------------------------------------------------------------------

def strip_ref(ty):
    t = ty.strip()
    m = re.match(r"&(?:'\w+ )?(?:mut )?(.*)", t, re.S)
    return m.group(1).strip() if m else None


def is_true(e):
    return z3.is_true(z3.simplify(e))


def is_false(e):
    return z3.is_false(z3.simplify(e))


def cvc5_decide(conds, inputs, timeout_s=60, extra=("--solve-bv-as-int=sum",)):
    """Decide a query with cvc5 (integer encoding of bit-vectors). Returns (verdict, model dict|None)."""
    import subprocess
    import tempfile
    import os
    s = z3.Solver()
    s.add(*conds)
    text = "(set-logic ALL)\n(set-option :produce-models true)\n" + s.to_smt2() + "\n(get-model)\n"
    with tempfile.NamedTemporaryFile("w", suffix=".smt2", delete=False) as f:
        f.write(text)
        path = f.name
    try:
        p = subprocess.run(["cvc5", "--lang", "smt2", "--tlimit", str(int(timeout_s * 1000))] + list(extra) + [path],
                           capture_output=True, text=True, timeout=timeout_s + 10)
        out = p.stdout
        first = out.strip().split("\n")[0] if out.strip() else ""
        if first == "unsat":
            return "unsat", None
        if first == "sat":
            model = {}
            for m in re.finditer(r"\(define-fun (\|[^|]*\||\S+) \(\) (\(_ BitVec \d+\)|Bool) (#x[0-9a-fA-F]+|#b[01]+|true|false)\)", out):
                name = m.group(1).strip("|")
                val = m.group(3)
                if val.startswith("#x"):
                    model[name] = int(val[2:], 16)
                elif val.startswith("#b"):
                    model[name] = int(val[2:], 2)
                else:
                    model[name] = (val == "true")
            return "sat", {k: model.get(k, 0) for k in inputs}
        return "unknown", None
    except Exception:
        return "unknown", None
    finally:
        os.unlink(path)


class Stats:
    def __init__(self):
        self.decided_by = {}
        self.queries = 0
        self.solver_s = 0.0
        self.paths = 0
        self.blocks = 0
        self.havoc = set()
        self.summaries = set()
        self.inlined = set()


class Finding:
    def __init__(self, kind, func, bb, msg, model, pc, tag=None):
        self.kind, self.func, self.bb, self.msg, self.model, self.pc, self.tag = kind, func, bb, msg, model, pc, tag

    def __repr__(self):
        return "Finding(%s %s %s: %s)" % (self.kind, self.func, self.bb, self.msg)


class State:
    def __init__(self):
        self.frames = {}
        self.cells = {}
        self.pc = []
        self.visits = {}
        self.next_frame = 0
        self.calls = []

    def clone(self):
        s = State()
        s.frames = {k: dict(v) for k, v in self.frames.items()}
        s.cells = dict(self.cells)
        s.pc = list(self.pc)
        s.visits = dict(self.visits)
        s.next_frame = self.next_frame
        s.calls = list(self.calls)
        return s


class Executor:
    def __init__(self, funcs, enums=None, inline=None, loop_bound=12, timeout_ms=5000, check_debug_overflow=True,
                 fallback_timeout_s=120):
        self.funcs = funcs
        self.enums = enums or {}
        self.inline = [re.compile(x) for x in (inline or [])]
        self.loop_bound = loop_bound
        self.stats = Stats()
        self.findings = []
        self.solver = z3.Solver()
        self.solver.set("timeout", timeout_ms)
        self.fresh_n = 0
        self.fallback_timeout_s = fallback_timeout_s
        self.cell_n = 0
        self.inputs = {}  # name -> z3 const (for model extraction)
        self.check_debug_overflow = check_debug_overflow
        self.unknown = []
        self.depth = 0
        self.obligations = []
        self.axioms = []
        self.trivial_obligations = 0
        self.hints = []
        self.mir_text = None
        self._promoted_cache = {}
        self.global_cells = {}  # lazily materialised initial memory behind references

    # ---- solver -------------------------------------------------------------
    def sat(self, conds):
        """None = unsat; dict (model over the named inputs) = sat; "unknown"."""
        conds = [c for c in list(conds) + list(self.axioms) if not is_true(c)]
        for c in conds:
            if is_false(c):
                return None
        t0 = time.time()
        self.solver.push()
        self.solver.add(*conds)
        r = self.solver.check()
        if os.environ.get("MIRSYM_SLOW") and time.time() - t0 > float(os.environ["MIRSYM_SLOW"]):
            sys.stderr.write("SLOW QUERY %.1fs %s: %s\n" % (time.time() - t0, r, "\n   ".join(str(c)[:300] for c in conds[-12:])))
        model = None
        if r == z3.sat:
            m = self.solver.model()
            model = {}
            for name, c in self.inputs.items():
                v = m.eval(c, model_completion=True)
                if z3.is_bv_value(v):
                    model[name] = v.as_long()
                elif z3.is_true(v) or z3.is_false(v):
                    model[name] = z3.is_true(v)
        self.solver.pop()
        self.stats.queries += 1
        self.stats.solver_s += time.time() - t0
        self.stats.decided_by["z3"] = self.stats.decided_by.get("z3", 0) + (0 if r == z3.unknown else 1)
        if r == z3.unknown:
            # multiplication / division heavy queries: integer encoding in cvc5
            t1 = time.time()
            v, model = cvc5_decide(conds, self.inputs, self.fallback_timeout_s)
            self.stats.solver_s += time.time() - t1
            if v == "unsat":
                self.stats.decided_by["cvc5-bv-as-int"] = self.stats.decided_by.get("cvc5-bv-as-int", 0) + 1
                return None
            if v == "sat":
                self.stats.decided_by["cvc5-bv-as-int"] = self.stats.decided_by.get("cvc5-bv-as-int", 0) + 1
                return model
            self.unknown.append(str(conds)[:200])
            return "unknown"
        return model if r == z3.sat else None

    def feasible(self, st, cond=None):
        conds = st.pc + ([cond] if cond is not None else [])
        r = self.sat(conds)
        return r is not None

    def oblige(self, st, cond, kind, func, bb, msg, tag=None):
        """`cond` must hold on this path; otherwise record a finding. Continue under cond."""
        if is_true(cond):
            self.trivial_obligations += 1
            return True
        r = self.sat(st.pc + [z3.Not(cond)])
        self.obligations.append({"kind": kind, "func": func, "bb": bb, "msg": msg, "tag": tag,
                                 "query": list(st.pc) + list(self.axioms) + [z3.Not(cond)],
                                 "verdict": "unsat" if r is None else ("unknown" if r == "unknown" else "sat")})
        if r is not None:
            if r != "unknown" and self.hints:
                # prefer a small counterexample (easier to replay natively)
                r2 = self.sat(st.pc + [z3.Not(cond)] + list(self.hints))
                if r2 is not None and r2 != "unknown":
                    r = r2
            self.findings.append(Finding(kind, func, bb, msg, r if r != "unknown" else None, list(st.pc), tag))
        st.pc.append(cond)
        return r is None

    # ---- fresh values ---------------------------------------------------------
    def fresh_name(self, base):
        self.fresh_n += 1
        return "%s!%d" % (base, self.fresh_n)

    def fresh(self, ty, name, st=None):
        t = (ty or "").strip()
        if t in INT_TYPES:
            bits, signed = INT_TYPES[t]
            c = z3.BitVec(name, bits)
            self.inputs[name] = c
            return VInt(c, bits, signed)
        if t == "bool":
            c = z3.Bool(name)
            self.inputs[name] = c
            return VBool(c)
        if t == "()":
            return VUnit()
        inner = strip_ref(t)
        if inner is not None:
            self.cell_n += 1
            cid = "cell%d" % self.cell_n
            self.global_cells[cid] = self.fresh(inner, name + ".*", st)
            return VRef("cell", cid)
        if t.startswith("(") and t.endswith(")") and t != "()":
            from mir import split_top
            parts = split_top(t[1:-1])
            return VAgg("tuple", None, [self.fresh(p, "%s.%d" % (name, i), st) for i, p in enumerate(parts)])
        return VOpaque(t, name)

    # ---- places ---------------------------------------------------------------
    def read_local(self, st, frame, idx, f):
        env = st.frames[frame]
        if idx not in env:
            env[idx] = self.fresh(f.locals.get(idx, "?"), "%s._%d" % (short(f.name), idx), st)
        return env[idx]

    def project(self, st, v, p, ctx):
        """Read projection p of value v."""
        if p[0] == "deref":
            return self.deref(st, v)
        if p[0] == "field":
            i, ty = p[1], p[2]
            if isinstance(v, VAgg):
                if i >= len(v.fields) and "{closure@" in (v.path or ""):
                    # rustc's MIR printer zips the captured *variables'* names with the capture operands, so a closure
                    # that captures two fields of one variable loses its last operands in the dump: such a capture
                    # is an unconstrained value of its type (over-approximation)
                    while len(v.fields) <= i:
                        v.fields.append(None)
                    v.fields[i] = self.fresh(ty, self.fresh_name("capture%d" % i), st)
                    self.stats.havoc.add("closure capture %d not printed in the MIR dump" % i)
                    return v.fields[i]
                if i >= len(v.fields):
                    raise PathEnd("field %d of %r" % (i, v))
                return v.fields[i]
            if isinstance(v, VOpaque):
                if i in v.over:
                    return v.over[i]
                if i not in v.memo:
                    v.memo[i] = self.fresh(ty, "%s.%d" % (v.name, i), st)
                return v.memo[i]
            if isinstance(v, VIter) or isinstance(v, VSlice) or isinstance(v, VVec):
                return VOpaque(ty, self.fresh_name("fieldof"))
            raise PathEnd("field of %r in %s" % (v, ctx))
        if p[0] == "downcast":
            if isinstance(v, VAgg):
                if v.variant is not None and v.variant != p[1]:
                    raise PathEnd("downcast %s of %r" % (p[1], v))
                return v
            if isinstance(v, VOpaque):
                # the payload of each variant is separate lazily materialised memory
                key = ("as", p[1])
                if key in v.over:
                    return v.over[key]
                if key not in v.memo:
                    v.memo[key] = VOpaque("variant %s of %s" % (p[1], v.ty), "%s#%s" % (v.name, p[1]))
                return v.memo[key]
            return v
        if p[0] == "index":
            raise PathEnd("index projection")
        if p[0] == "constindex":
            if isinstance(v, VVec):
                k = p[1]
                return v.elems[k]
            if isinstance(v, VSlice) and isinstance(v.vec, VVec):
                st0 = v.start
                if hasattr(st0, "e"):
                    e0 = z3.simplify(st0.e)
                    st0 = e0.as_long() if z3.is_bv_value(e0) else None
                if isinstance(st0, int) and st0 + p[1] < len(v.vec.elems):
                    return v.vec.elems[st0 + p[1]]
                raise PathEnd("constindex on slice")
            raise PathEnd("constindex")
        raise PathEnd("projection %r" % (p,))

    def deref(self, st, v):
        if isinstance(v, VRef):
            if v.kind == "local":
                frame, idx, proj = v.a, v.b, v.c
                val = st.frames[frame].get(idx)
                if val is None:
                    raise PathEnd("dangling local ref")
                for p in proj:
                    val = self.project(st, val, p, "deref")
                return val
            if v.kind == "cell":
                return st.cells[v.a] if v.a in st.cells else self.global_cells[v.a]
            if v.kind == "val":
                return v.a
            if v.kind == "elem":
                vec = v.a if not isinstance(v.a, VRef) else self.deref(st, v.a)
                return self.select(vec, v.b)
            if v.kind == "proj":
                val = self.deref(st, v.a)
                for p in v.b:
                    val = self.project(st, val, p, "deref-proj")
                return val
        if isinstance(v, VOpaque):
            if "*" in v.over:
                return v.over["*"]
            if "*" not in v.memo:
                inner = strip_ref(v.ty) or "?"
                v.memo["*"] = self.fresh(inner, v.name + ".*", st)
            return v.memo["*"]
        raise PathEnd("deref of %r" % (v,))

    def select(self, vec, idx):
        """vec[idx] for a VVec of VInt/VBool/VAgg-of-ints elements with symbolic idx (ite chain)."""
        if isinstance(vec, VSlice):
            base = vec.vec
            return self.select(base, VInt(vec.start.e + idx.e, 64, False))
        if not isinstance(vec, VVec):
            raise PathEnd("select on %r" % (vec,))
        if z3.is_bv_value(z3.simplify(idx.e)):
            k = z3.simplify(idx.e).as_long()
            if k < len(vec.elems):
                return vec.elems[k]
            raise PathEnd("index out of range")
        n = len(vec.elems)
        if n == 0:
            raise PathEnd("select on empty vec")
        return ite_value([(idx.e == k, vec.elems[k]) for k in range(n - 1)], vec.elems[n - 1])

    def read_place(self, st, frame, place, f):
        v = self.read_local(st, frame, place.local, f)
        for p in place.proj:
            if p[0] == "index":
                iv = self.read_local(st, frame, p[1], f)
                v = self.select(v, iv)
            else:
                v = self.project(st, v, p, place)
        return v

    def write_place(self, st, frame, place, val, f):
        env = st.frames[frame]
        if not place.proj:
            env[place.local] = val
            return
        base = self.read_local(st, frame, place.local, f)
        env[place.local] = self.update(st, base, place.proj, val, frame, f)

    def update(self, st, base, proj, val, frame, f):
        """Functional update of base at projection path `proj` with val (writes through refs)."""
        if not proj:
            return val
        p = proj[0]
        if p[0] == "deref":
            self.write_ref(st, base, proj[1:], val, f)
            return base
        if p[0] == "field":
            i = p[1]
            if isinstance(base, VAgg):
                fields = list(base.fields)
                while len(fields) <= i:
                    fields.append(VOpaque("?", self.fresh_name("pad")))
                fields[i] = self.update(st, fields[i], proj[1:], val, frame, f)
                return VAgg(base.path, base.variant, fields, base.names)
            if isinstance(base, VOpaque):
                cur = self.project(st, base, p, "update")
                over = dict(base.over)
                over[i] = self.update(st, cur, proj[1:], val, frame, f)
                return VOpaque(base.ty, base.name, base.memo, over)
            raise PathEnd("field update of %r" % (base,))
        if p[0] == "downcast":
            if isinstance(base, VOpaque):
                cur = self.project(st, base, p, "update")
                over = dict(base.over)
                over[("as", p[1])] = self.update(st, cur, proj[1:], val, frame, f)
                return VOpaque(base.ty, base.name, base.memo, over)
            return self.update(st, base, proj[1:], val, frame, f)
        if p[0] == "index":
            iv = self.read_local(st, frame, p[1], f)
            return self.store(st, base, iv, proj[1:], val, frame, f)
        raise PathEnd("update projection %r" % (p,))

    def store(self, st, vec, idx, rest, val, frame, f):
        if not isinstance(vec, VVec):
            raise PathEnd("store into %r" % (vec,))
        elems = list(vec.elems)
        s = z3.simplify(idx.e)
        if z3.is_bv_value(s):
            k = s.as_long()
            elems[k] = self.update(st, elems[k], rest, val, frame, f)
            return VVec(elems, vec.ety)
        for k in range(len(elems)):
            newk = self.update(st, elems[k], rest, val, frame, f)
            elems[k] = ite_value([(idx.e == k, newk)], elems[k])
        return VVec(elems, vec.ety)

    def write_ref(self, st, ref, proj, val, f):
        if isinstance(ref, VRef):
            if ref.kind == "local":
                frame, idx, rproj = ref.a, ref.b, ref.c
                env = st.frames[frame]
                base = env[idx]
                env[idx] = self.update(st, base, list(rproj) + list(proj), val, frame, f)
                return
            if ref.kind == "cell":
                cur = st.cells[ref.a] if ref.a in st.cells else self.global_cells[ref.a]
                st.cells[ref.a] = self.update(st, cur, proj, val, None, f)
                return
            if ref.kind == "proj":
                self.write_ref(st, ref.a, list(ref.b) + list(proj), val, f)
                return
            if ref.kind == "elem":
                # element of a vector held behind another ref
                vecref = ref.a
                if isinstance(vecref, VRef):
                    vec = self.deref(st, vecref)
                    if isinstance(vec, VSlice):
                        vec = vec.vec
                    newvec = self.store(st, vec, ref.b, proj, val, None, f)
                    self.write_ref(st, vecref, [], newvec, f)
                    return
        if isinstance(ref, VOpaque):
            cur = self.deref(st, ref)
            ref.memo["*"] = self.update(st, cur, proj, val, None, f)  # note: shared; acceptable for havoc'd memory
            return
        raise PathEnd("write through %r" % (ref,))

    # ---- operands / rvalues ------------------------------------------------------
    def const_value(self, text, ty, want_ty, cur=None):
        t = ty or want_ty
        if ty == "bool" or text in ("true", "false"):
            return VBool(z3.BoolVal(text == "true"))
        m = re.fullmatch(r"core::num::<impl (\w+)>::(MAX|MIN)", text.strip()) or re.fullmatch(r"(\w+)::(MAX|MIN)", text.strip())
        if m:
            bits, signed = INT_TYPES[m.group(1)]
            if m.group(2) == "MAX":
                v = (1 << (bits - 1)) - 1 if signed else (1 << bits) - 1
            else:
                v = -(1 << (bits - 1)) if signed else 0
            return VInt(z3.BitVecVal(v, bits), bits, signed)
        if t in INT_TYPES and re.fullmatch(r"-?\d+", text):
            bits, signed = INT_TYPES[t]
            return VInt(z3.BitVecVal(int(text), bits), bits, signed)
        if text == "()":
            return VUnit()
        if ty == "char" or (text.startswith("'") and text.endswith("'")):
            body = text[1:-1]
            esc = {"\\n": 10, "\\t": 9, "\\r": 13, "\\0": 0, "\\\\": 92, "\\'": 39}
            if body in esc:
                return VInt(z3.BitVecVal(esc[body], 32), 32, False)
            m2 = re.fullmatch(r"\\u\{([0-9a-fA-F]+)\}", body)
            if m2:
                return VInt(z3.BitVecVal(int(m2.group(1), 16), 32), 32, False)
            if len(body) == 1:
                return VInt(z3.BitVecVal(ord(body), 32), 32, False)
        if "::promoted[" in text:
            v = self.promoted(text, cur)
            if v is not None:
                return v
        return VOpaque(t or "?", "const:" + text)

    def promoted(self, text, cur=None):
        """Value of a promoted constant (its MIR body is executed)."""
        name = re.sub(r"::<[^>]*>", "", text.strip())
        fn = self.funcs.get("const " + name)
        if fn is None and cur is not None:
            # a promoted constant belongs to the function that uses it (impl methods are spelled differently at the use site)
            m = re.search(r"::(promoted\[\d+\])$", name)
            if m:
                fn = self.funcs.get("const " + cur.name + "::" + m.group(1))
                if fn is not None:
                    name = cur.name + "::" + m.group(1)
        segs = name.split("::")
        while fn is None and len(segs) > 2:
            # the use site spells the full module path, the definition only the path inside its module
            segs = segs[1:]
            fn = self.funcs.get("const " + "::".join(segs))
        if fn is None:
            return None
        if name in self._promoted_cache:
            return self._promoted_cache[name]
        st = State()
        outs = self.exec_function(fn, {}, st)
        if len(outs) != 1:
            return None
        s2, v = outs[0]
        # references inside a promoted value point into its own frame: resolve them to values
        v = self._freeze(s2, v)
        self._promoted_cache[name] = v
        return v

    def _freeze(self, st, v, depth=0):
        if isinstance(v, VRef) and depth < 6:
            try:
                return VRef("val", self._freeze(st, self.deref(st, v), depth + 1))
            except PathEnd:
                return v
        if isinstance(v, VAgg):
            return VAgg(v.path, v.variant, [self._freeze(st, x, depth + 1) for x in v.fields], v.names)
        return v

    def operand(self, st, frame, op, f, want_ty=None):
        if op[0] in ("copy", "move"):
            return self.read_place(st, frame, op[1], f)
        if op[0] == "const":
            return self.const_value(op[1], op[2], want_ty, cur=f)
        raise PathEnd("operand %r" % (op,))

    def binop(self, st, op, a, b, f, bb):
        if isinstance(a, VBool) and isinstance(b, VBool):
            if op == "Eq":
                return VBool(a.e == b.e)
            if op == "Ne":
                return VBool(a.e != b.e)
            if op == "BitAnd":
                return VBool(z3.And(a.e, b.e))
            if op == "BitOr":
                return VBool(z3.Or(a.e, b.e))
            if op == "BitXor":
                return VBool(z3.Xor(a.e, b.e))
        if not (isinstance(a, VInt) and isinstance(b, VInt)):
            # floating point values are opaque; an (in)equality test against a constant becomes a named boolean
            if op in ("Eq", "Ne") and isinstance(a, VOpaque) and isinstance(b, VOpaque) and (
                    (a.ty or "") in ("f32", "f64") or (b.ty or "") in ("f32", "f64") or "f32" in b.name or "f32" in a.name):
                key = "(%s == %s)" % (a.name, b.name)
                if key not in self.inputs:
                    self.inputs[key] = z3.Bool(key)
                e = self.inputs[key]
                return VBool(e if op == "Eq" else z3.Not(e))
            raise PathEnd("binop %s on non-integer operands %r, %r" % (op, a, b))
        if a.bits != b.bits and op not in ("Shl", "Shr"):
            raise PathEnd("width mismatch in %s" % op)
        s = a.signed
        x, y = a.e, b.e
        if op in ("Add", "AddUnchecked"):
            return VInt(x + y, a.bits, s)
        if op in ("Sub", "SubUnchecked"):
            return VInt(x - y, a.bits, s)
        if op in ("Mul", "MulUnchecked"):
            return VInt(x * y, a.bits, s)
        if op == "Div":
            if not s and z3.is_bv_value(z3.simplify(y)):
                # unsigned division by a constant power of two is a shift (same value, much easier for the solver)
                k_ = z3.simplify(y).as_long()
                if k_ == 1:
                    return VInt(x, a.bits, s)
                if k_ > 0 and (k_ & (k_ - 1)) == 0:
                    return VInt(z3.LShR(x, z3.BitVecVal(k_.bit_length() - 1, a.bits)), a.bits, s)
            return VInt((x / y) if s else z3.UDiv(x, y), a.bits, s)
        if op == "Rem":
            return VInt(z3.SRem(x, y) if s else z3.URem(x, y), a.bits, s)
        if op == "BitAnd":
            return VInt(x & y, a.bits, s)
        if op == "BitOr":
            return VInt(x | y, a.bits, s)
        if op == "BitXor":
            return VInt(x ^ y, a.bits, s)
        if op == "Eq":
            return VBool(x == y)
        if op == "Ne":
            return VBool(x != y)
        if op == "Lt":
            return VBool((x < y) if s else z3.ULT(x, y))
        if op == "Le":
            return VBool((x <= y) if s else z3.ULE(x, y))
        if op == "Gt":
            return VBool((x > y) if s else z3.UGT(x, y))
        if op == "Ge":
            return VBool((x >= y) if s else z3.UGE(x, y))
        if op == "AddWithOverflow":
            ok = add_ok(x, y, s)
            return VAgg("tuple", None, [VInt(x + y, a.bits, s), VBool(z3.Not(ok))])
        if op == "SubWithOverflow":
            ok = sub_ok(x, y, s)
            return VAgg("tuple", None, [VInt(x - y, a.bits, s), VBool(z3.Not(ok))])
        if op == "MulWithOverflow":
            ok = mul_ok(x, y, s)
            return VAgg("tuple", None, [VInt(x * y, a.bits, s), VBool(z3.Not(ok))])
        if op == "Shl":
            return VInt(x << z3.ZeroExt(a.bits - b.bits, y) if b.bits < a.bits else x << y, a.bits, s)
        if op == "Shr":
            yy = z3.ZeroExt(a.bits - b.bits, y) if b.bits < a.bits else y
            return VInt((x >> yy) if s else z3.LShR(x, yy), a.bits, s)
        raise PathEnd("binop %s" % op)

    def rvalue(self, st, frame, rv, f, bb, dest_ty):
        k = rv[0]
        if k == "use":
            return self.operand(st, frame, rv[1], f, dest_ty)
        if k == "binop":
            a = self.operand(st, frame, rv[2], f)
            b = self.operand(st, frame, rv[3], f, None)
            if isinstance(a, VInt) and isinstance(b, VOpaque):
                b = self.operand(st, frame, rv[3], f, None)
            if isinstance(b, VInt) and not isinstance(a, (VInt, VBool)):
                pass
            # constants without type take the other operand's type
            if isinstance(a, VInt) and rv[3][0] == "const" and not isinstance(b, VInt):
                b = self.const_value(rv[3][1], None, tyname(a))
            if isinstance(b, VInt) and rv[2][0] == "const" and not isinstance(a, VInt):
                a = self.const_value(rv[2][1], None, tyname(b))
            return self.binop(st, rv[1], a, b, f, bb)
        if k == "unop":
            a = self.operand(st, frame, rv[2], f)
            if rv[1] == "Not":
                if isinstance(a, VBool):
                    return VBool(z3.Not(a.e))
                if isinstance(a, VInt):
                    return VInt(~a.e, a.bits, a.signed)
            if rv[1] == "Neg" and isinstance(a, VInt):
                return VInt(-a.e, a.bits, a.signed)
            return VOpaque(dest_ty or "?", self.fresh_name("unop"))
        if k == "cast":
            a = self.operand(st, frame, rv[1], f)
            ty = rv[2]
            if isinstance(a, VInt) and ty in INT_TYPES:
                bits, signed = INT_TYPES[ty]
                if bits == a.bits:
                    return VInt(a.e, bits, signed)
                if bits < a.bits:
                    return VInt(z3.Extract(bits - 1, 0, a.e), bits, signed)
                ext = z3.SignExt(bits - a.bits, a.e) if a.signed else z3.ZeroExt(bits - a.bits, a.e)
                return VInt(ext, bits, signed)
            if isinstance(a, VBool) and ty in INT_TYPES:
                bits, signed = INT_TYPES[ty]
                return VInt(z3.If(a.e, z3.BitVecVal(1, bits), z3.BitVecVal(0, bits)), bits, signed)
            if isinstance(a, (VRef, VOpaque, VAgg, VVec, VSlice)):
                return a  # pointer / unsize casts keep the value
            return VOpaque(ty, self.fresh_name("cast"))
        if k == "ref":
            pl = rv[2]
            # &(*_x) reborrow: resolve to the same reference where possible
            if pl.proj and pl.proj[-1] == ("deref",) and len(pl.proj) == 1:
                base = self.read_local(st, frame, pl.local, f)
                if isinstance(base, (VRef, VOpaque)):
                    return base
            # reference into a place reached through a deref: keep it as (ref, rest)
            for i, p in enumerate(pl.proj):
                if p[0] == "deref":
                    base = self.read_place(st, frame, Place(pl.local, pl.proj[:i]), f)
                    rest = pl.proj[i + 1:]
                    if isinstance(base, VRef) and base.kind == "local":
                        return VRef("local", base.a, base.b, list(base.c) + list(rest))
                    if not rest:
                        return base
                    if any(p[0] == "deref" for p in rest):
                        return VRef("val", self.read_place(st, frame, pl, f))
                    # reference to a projection of whatever `base` points to
                    return VRef("proj", base, list(rest))
            return VRef("local", frame, pl.local, list(pl.proj))
        if k == "discriminant":
            v = self.read_place(st, frame, rv[1], f)
            return self.discriminant(v)
        if k == "tuple":
            return VAgg("tuple", None, [self.operand(st, frame, o, f) for o in rv[1]])
        if k == "array":
            return VVec([self.operand(st, frame, o, f) for o in rv[1]])
        if k == "adt":
            path, variant, flds = rv[1], rv[2], rv[3]
            vals = [self.operand(st, frame, o, f) for (_, o) in flds]
            names = [n for (n, _) in flds] if flds and flds[0][0] is not None else None
            return VAgg(path, variant, vals, names)
        if k == "len":
            v = self.operand(st, frame, rv[1], f)
            if isinstance(v, VRef):
                v = self.deref(st, v)
            return self.length(v)
        self.stats.havoc.add("rvalue: " + str(rv[1])[:80])
        return self.fresh(dest_ty or "?", self.fresh_name("rv"), st)

    def length(self, v):
        if isinstance(v, VVec):
            return VInt(z3.BitVecVal(len(v.elems), 64), 64, False)
        if isinstance(v, VSlice):
            return VInt(v.end.e - v.start.e, 64, False)
        return VInt(z3.BitVec(self.fresh_name("len"), 64), 64, False)

    def discriminant(self, v):
        if isinstance(v, VAgg) and v.variant is not None:
            enum = enum_name(v.path)
            names = self.enums.get(enum)
            if enum in ("Option",):
                names = ["None", "Some"]
            if enum in ("Result",):
                names = ["Ok", "Err"]
            if enum in ("ControlFlow",):
                names = ["Continue", "Break"]
            if names and v.variant in names:
                return VInt(z3.BitVecVal(names.index(v.variant), 64), 64, True)
            raise PathEnd("unknown enum %s for discriminant" % v.path)
        if isinstance(v, VOpaque):
            if "#d" not in v.memo:
                c = z3.BitVec(v.name + ".discr", 64)
                self.inputs[v.name + ".discr"] = c
                v.memo["#d"] = VInt(c, 64, True)
                # a value of an enum type holds one of its variants
                segs = re.sub(r"<.*", "", (v.ty or "").strip().lstrip("&")).split("::")
                tn = segs[-1]
                qual = "::".join(segs[-2:]) if len(segs) >= 2 else tn
                m = re.match(r"(\w+)", tn)
                nvar = None
                if m:
                    if m.group(1) in ("Option", "Result", "ControlFlow"):
                        nvar = 2
                    elif qual in self.enums:
                        nvar = len(self.enums[qual])
                    elif m.group(1) in self.enums:
                        nvar = len(self.enums[m.group(1)])
                if nvar:
                    self.axioms.append(z3.And(c >= 0, c < nvar))
            return v.memo["#d"]
        raise PathEnd("discriminant of %r" % (v,))

    # ---- execution ------------------------------------------------------------------
    def run(self, fname, args=None, st=None, entry="bb0", env_overrides=None, stop_at=None):
        """Execute function `fname` on all paths. Returns list of (state, return value)."""
        f = self.funcs[fname]
        st = st or State()
        return self.exec_function(f, args or {}, st, entry, env_overrides, stop_at)

    def exec_function(self, f, args, st, entry="bb0", env_overrides=None, stop_at=None):
        frame = st.next_frame
        st.next_frame += 1
        env = {}
        st.frames[frame] = env
        for (idx, ty) in f.args:
            if idx in args:
                env[idx] = args[idx]
        if env_overrides:
            env.update(env_overrides)
        results = []
        work = [(st, entry)]
        while work:
            cur, bb = work.pop()
            try:
                self.exec_block(f, frame, cur, bb, work, results, stop_at)
            except PathEnd as e:
                self.findings.append(Finding("unsupported", f.name, bb, str(e), None, list(cur.pc)))
        return results

    def exec_block(self, f, frame, st, bb, work, results, stop_at):
        key = (frame, bb)
        st.visits[key] = st.visits.get(key, 0) + 1
        if st.visits[key] > self.loop_bound:
            m = self.sat(st.pc)
            if m is None:
                return
            self.findings.append(Finding("loop-bound", f.name, bb, "block executed more than %d times on a feasible path" % self.loop_bound,
                                         m if m != "unknown" else None, list(st.pc)))
            return
        self.stats.blocks += 1
        blk = f.blocks[bb]
        for s in blk.stmts:
            if s[0] == "assign":
                place, rv = s[1], s[2]
                dest_ty = f.locals.get(place.local) if not place.proj else (place.proj[-1][2] if place.proj[-1][0] == "field" else None)
                val = self.rvalue(st, frame, rv, f, bb, dest_ty)
                self.write_place(st, frame, place, val, f)
        t = blk.term
        if t is None:
            raise PathEnd("block without terminator")
        k = t[0]
        if stop_at and bb in stop_at:
            results.append((st, ("stopped", bb, frame)))
            return
        if k == "goto":
            work.append((st, t[1]))
        elif k == "return":
            self.stats.paths += 1
            results.append((st, st.frames[frame].get(0, VUnit())))
        elif k == "unreachable":
            if self.feasible(st):
                self.findings.append(Finding("unreachable-reached", f.name, bb, "unreachable terminator on a feasible path", None, list(st.pc)))
        elif k == "resume":
            return
        elif k == "drop":
            work.append((st, t[2]))
        elif k == "switch":
            v = self.operand(st, frame, t[1], f)
            cases, otherwise = t[2], t[3]
            if isinstance(v, VBool):
                conds = []
                for (val, target) in cases:
                    conds.append((v.e if val != 0 else z3.Not(v.e), target))
                if otherwise:
                    covered = [c for c, _ in conds]
                    conds.append((z3.Not(z3.Or(*covered)) if covered else z3.BoolVal(True), otherwise))
            elif isinstance(v, VInt):
                conds = []
                for (val, target) in cases:
                    conds.append((v.e == z3.BitVecVal(val, v.bits), target))
                if otherwise:
                    conds.append((z3.And(*[v.e != z3.BitVecVal(val, v.bits) for (val, _) in cases]) if cases else z3.BoolVal(True), otherwise))
            else:
                raise PathEnd("switch on %r" % (v,))
            live = []
            for c, target in conds:
                if is_false(c):
                    continue
                if is_true(c):
                    live.append((None, target))
                    break
                if self.feasible(st, c):
                    live.append((c, target))
            for i, (c, target) in enumerate(live):
                s2 = st if i == len(live) - 1 else st.clone()
                if c is not None:
                    s2.pc.append(c)
                work.append((s2, target))
        elif k == "assert":
            expected, op, msg, succ = t[1], t[2], t[3], t[4]
            v = self.operand(st, frame, op, f)
            if not isinstance(v, VBool):
                raise PathEnd("assert on %r" % (v,))
            cond = v.e if expected else z3.Not(v.e)
            self.oblige(st, cond, "panic", f.name, bb, "MIR assert: " + msg.strip('"')[:100], tag="assert")
            if succ and self.feasible(st):
                work.append((st, succ))
        elif k == "call":
            dest, callee, argops, ret_bb = t[1], t[2], t[3], t[4]
            argvals = []
            for o in argops:
                try:
                    argvals.append(self.operand(st, frame, o, f))
                except PathEnd:
                    argvals.append(VOpaque("?", self.fresh_name("arg")))
            dest_ty = None
            if dest is not None:
                dest_ty = f.locals.get(dest.local) if not dest.proj else None
            if re.match(r"^(?:move|copy) _\d+$", callee.strip()):
                # call through a function pointer held in a local: resolve the function item it holds
                from mir import parse_operand
                try:
                    fv = self.operand(st, frame, parse_operand(callee.strip()), f)
                    while isinstance(fv, VRef):
                        fv = self.deref(st, fv)
                    if isinstance(fv, VOpaque) and fv.name.startswith("const:"):
                        callee = fv.name[6:]
                except PathEnd:
                    pass
            st.calls.append((normalize_callee(callee), argvals, f.name, bb))
            outs = self.call(st, f, bb, callee, argvals, dest_ty)
            for (s2, val) in outs:
                if ret_bb is None:
                    continue
                if dest is not None and val is not None:
                    self.write_place(s2, frame, dest, val, f)
                work.append((s2, ret_bb))
        else:
            raise PathEnd("terminator %r" % (t,))

    # ---- calls ----------------------------------------------------------------------------
    def call(self, st, f, bb, callee, args, dest_ty):
        from summaries import summarize
        r = summarize(self, st, f, bb, callee, args, dest_ty)
        if r is not None:
            self.stats.summaries.add(normalize_callee(callee))
            return r
        # inline crate functions on request
        for rx in self.inline:
            if rx.search(callee):
                target = self.resolve(callee)
                if target is not None and self.depth < 6:
                    self.stats.inlined.add(target.name)
                    self.depth += 1
                    try:
                        amap = {}
                        for (idx, ty), v in zip(target.args, args):
                            amap[idx] = v
                        outs = self.exec_function(target, amap, st)
                    finally:
                        self.depth -= 1
                    return outs
        if re.search(r" as Iterator>::next$", callee.strip()):
            # an unconstrained iterator never ends: stop instead of unrolling it to the loop bound
            raise PathEnd("iterator not modelled: %s" % normalize_callee(callee)[:120])
        self.stats.havoc.add(normalize_callee(callee))
        if dest_ty is None:
            return [(st, None)]
        return [(st, self.fresh(dest_ty, self.fresh_name("ret:" + normalize_callee(callee)[:40]), st))]

    def closure_function(self, clos):
        """MIR function of a closure value (matched by the `{closure@file:l:c: l:c}` type text)."""
        path = None
        if isinstance(clos, VAgg):
            path = clos.path
        elif isinstance(clos, VOpaque):
            path = clos.ty if "{closure@" in (clos.ty or "") else clos.name
        if isinstance(clos, VRef):
            return None
        if not path:
            return None
        m = re.search(r"\{closure@[^}]*\}", path)
        if not m:
            return None
        key = m.group(0)
        for name, fn in self.funcs.items():
            if fn.args and key in fn.args[0][1]:
                return fn
        return None

    def call_closure(self, st, clos, args):
        """Call closure value `clos` with positional args; returns [(state, value)]."""
        inner = clos
        if isinstance(inner, VRef):
            inner = self.deref(st, inner)
        fn = self.closure_function(inner)
        if fn is None:
            # function items / fn pointers: `const path::to::fn`
            if isinstance(inner, VOpaque) and inner.name.startswith("const:"):
                path = inner.name[6:]
                last = re.sub(r"::<[^>]*>", "", path).split("::")[-1]
                enum = re.sub(r"::<.*", "", path).split("::")[-1] if "::<" in path else (path.split("::")[-2] if "::" in path else "")
                if enum in self.enums and last in self.enums[enum]:
                    return [(st, VAgg(path, last, list(args)))]  # tuple-variant constructor used as a function
                target = self.resolve(path)
                # a summary (std contract or one installed by the spec) takes precedence, as for a direct call
                from summaries import summarize

                class _F:
                    name = target.name if target is not None else path
                r = summarize(self, st, _F, "fn-item", path, list(args), None)
                if r is not None:
                    self.stats.summaries.add(normalize_callee(path))
                    return r
                if target is not None:
                    self.stats.inlined.add(target.name)
                    amap = {idx: v for (idx, ty), v in zip(target.args, args)}
                    return self.exec_function(target, amap, st)
            raise PathEnd("cannot resolve closure %r" % (inner,))
        self.stats.inlined.add(fn.name)
        amap = {}
        # closure MIR: _1 is the closure (by ref for Fn/FnMut, by value for FnOnce), the rest are the arguments
        first_ty = fn.args[0][1]
        amap[fn.args[0][0]] = VRef("val", inner) if first_ty.startswith("&") else inner
        for (idx, ty), v in zip(fn.args[1:], args):
            amap[idx] = v
        self.depth += 1
        try:
            if self.depth > 8:
                raise PathEnd("closure recursion too deep")
            return self.exec_function(fn, amap, st)
        finally:
            self.depth -= 1

    def resolve(self, callee):
        c = callee.strip()
        # drop trailing generic arguments:  Type::<D>::method::<Args>  ->  Type::<D>::method
        while c.endswith(">"):
            depth = 0
            cut = None
            for i in range(len(c) - 1, -1, -1):
                ch = c[i]
                if ch == ">" and not (i > 0 and c[i - 1] in "-="):
                    depth += 1
                elif ch == "<":
                    depth -= 1
                    if depth == 0:
                        cut = i
                        break
            if cut is not None and cut >= 2 and c[cut - 2:cut] == "::":
                c = c[:cut - 2]
            else:
                break
        m = re.match(r"<(\w+)(?:<.*>)? as [\w:<>, ']+>::(\w+)$", c)
        if m:
            ty, meth = m.group(1), m.group(2)
            cands = [fn for name, fn in self.funcs.items() if name.endswith("::" + meth)
                     and re.search(r"\b%s\b" % ty, (fn.args[0][1] if fn.args else "") + " " + (fn.ret or ""))]
            if len(cands) == 1:
                return cands[0]
            return None
        # exact or suffix match on function names in the dump
        cands = [fn for name, fn in self.funcs.items() if name == c or name.endswith("::" + c.split("::")[-1]) and c.split("::")[-1] == name.split("::")[-1]]
        if len(cands) == 1:
            return cands[0]
        # Type::method  ->  "<impl at ...>::method" is ambiguous; try the method name with the type in the signature
        m = re.search(r"(\w+)(?:::<[^>]*>)?::(\w+)$", c)
        if m:
            ty, meth = m.group(1), m.group(2)
            cands = [fn for name, fn in self.funcs.items() if name.endswith("::" + meth) and fn.args and re.search(r"\b%s\b" % ty, fn.args[0][1] + " " + (fn.ret or ""))]
            if len(cands) == 1:
                return cands[0]
        return None


def normalize_callee(c):
    return re.sub(r"\s+", " ", c.strip())


def short(name):
    return re.sub(r"<impl at [^>]*>", "impl", name)[-40:]


def tyname(v):
    for k, (bits, signed) in INT_TYPES.items():
        if bits == v.bits and signed == v.signed and k not in ("char", "isize", "usize"):
            if bits == 64:
                return "i64" if signed else "u64"
            return k
    return "u64"


def enum_name(path):
    # "Option::<usize>::Some" -> Option ; "std::option::Option::<T>::None" -> Option ; "RenderNodeInfo::TableCell" -> RenderNodeInfo
    p = re.sub(r"::<.*>(?=::)", "", path)
    parts = p.split("::")
    if len(parts) >= 2:
        return parts[-2]
    return parts[0]


def ite_value(cases, default):
    """Build an ite over structurally equal values."""
    if isinstance(default, VInt):
        e = default.e
        for c, v in reversed(cases):
            e = z3.If(c, v.e, e)
        return VInt(e, default.bits, default.signed)
    if isinstance(default, VBool):
        e = default.e
        for c, v in reversed(cases):
            e = z3.If(c, v.e, e)
        return VBool(e)
    if isinstance(default, VAgg):
        fields = []
        for i in range(len(default.fields)):
            fields.append(ite_value([(c, v.fields[i]) for c, v in cases], default.fields[i]))
        return VAgg(default.path, default.variant, fields, default.names)
    if isinstance(default, VUnit):
        return default
    if isinstance(default, VOpaque):
        return default
    if isinstance(default, VRef) and default.kind == "val":
        return VRef("val", ite_value([(c, v.a) for c, v in cases], default.a))
    raise PathEnd("ite over %r" % (default,))
