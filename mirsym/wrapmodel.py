"""Model layer for executing WrappedBlock's MIR (word wrapping) symbolically.

The *control and integer bookkeeping* of `WrappedBlock::{add_text, flush_word,
flush_line, force_flush_line}` is executed from the crate's MIR.  What is
replaced by contracts:

* `TaggedLine<T>` is a struct {v (opaque), len} extended with two ghost
  fields: `nonempty` (has a string element) and `gw` (display width of its
  string elements).  `push_char / push_ws / push / consume / is_empty / new`
  follow the contract that the Kani harnesses t4_* decide on the real code
  (len grows by the display width of what is pushed; consume moves every
  element and leaves the source without elements).
* strings are (display width, byte length) pairs; `" ".repeat(n)` has width n;
* the text is a sequence of symbolic characters drawn from an alphabet
  (`a`, space, newline, tab, a wide CJK character, a combining mark, NBSP);
  `char::is_whitespace` and `UnicodeWidthChar::width` are the functions of the
  character code given by std / the width model;
* `self.text` (the flushed lines) is abstracted to (count, maximum len);
* `flush_word_hard_wrap` is executed from MIR only in the specs that say so;
  elsewhere it is a contract (section "hard wrap contract").
"""
import re
import z3

from sym import (VInt, VBool, VAgg, VRef, VOpaque, VUnit, VVec, VIter, PathEnd, State)
import summaries

U = lambda v: z3.BitVecVal(v, 64)

ALPHABET = {
    "a": 0x61, " ": 0x20, "\n": 0x0a, "\t": 0x09, "wide": 0x5b57, "comb": 0x0301, "nbsp": 0xa0,
}


def char_is_ws(c):
    return z3.Or(c == 0x20, c == 0x0a, c == 0x09, c == 0xa0)


def char_is_control(c):
    return z3.Or(c == 0x0a, c == 0x09)


def char_width(c):
    return z3.If(c == 0x5b57, U(2), z3.If(c == 0x0301, U(0), U(1)))


def in_alphabet(c, names):
    return z3.Or(*[c == ALPHABET[n] for n in names])


def tagged_line(exe, name, length, nonempty, gw, content=None):
    """content: None = the elements are not tracked (opaque); a list = tracked sequence of element tokens."""
    v = VVec(list(content)) if content is not None else VOpaque("Vec<TaggedLineElement<T>>", name + ".v")
    return VAgg("TaggedLine", None, [v, length, nonempty, gw], None)


def _app(v, *items):
    """append element tokens when the line's content is tracked"""
    return VVec(list(v.elems) + list(items)) if isinstance(v, VVec) else v


def lines_model(count, maxlen, content=None):
    return VAgg("LinesModel", None, [count, maxlen] + ([content] if content is not None else []))


def str_model(width, nbytes):
    return VAgg("StrModel", None, [width, nbytes])


class WrapModel:
    """Holds the symbolic initial state and installs the contract summaries."""

    def __init__(self, ctx, exe, prefix="s"):
        self.ctx = ctx
        self.exe = exe
        names = ctx.structs["WrappedBlock"]
        self.names = names
        f = lambda ty, n: exe.fresh(ty, prefix + "." + n)
        self.width = f("usize", "width")
        self.line_len = f("usize", "line_len")
        self.line_nonempty = f("bool", "line_nonempty")
        self.wordlen = f("usize", "wordlen")
        self.word_nonempty = f("bool", "word_nonempty")
        self.wslen = f("usize", "wslen")
        self.pre_wrapped = f("bool", "pre_wrapped")
        self.allow_overflow = f("bool", "allow_overflow")
        self.text_count = f("usize", "text_count")
        self.text_maxlen = f("usize", "text_maxlen")
        self.hard_wrap_calls = 0

    def block(self, spacetag_some):
        e = self.exe
        vals = {
            "width": self.width,
            "text": lines_model(self.text_count, self.text_maxlen, VVec([]) if getattr(self, "track", False) else None),
            "line": tagged_line(e, "line", self.line_len, self.line_nonempty, self.line_len,
                                content=[VOpaque("tok", "LINE0")] if getattr(self, "track", False) else None),
            "spacetag": (VAgg("Option::Some", "Some", [VOpaque("T", "spacetag0")]) if spacetag_some
                         else VAgg("Option::None", "None", [])),
            "word": tagged_line(e, "word", e.fresh("usize", "word_len_field"), self.word_nonempty, self.wordlen,
                                content=[VOpaque("tok", "WORD0")] if getattr(self, "track", False) else None),
            "wordlen": self.wordlen,
            "wslen": self.wslen,
            "pre_wrapped": self.pre_wrapped,
            "pad_blocks": VBool(z3.BoolVal(False)),
            "allow_overflow": self.allow_overflow,
        }
        return VAgg("WrappedBlock", None, [vals[n] for n in self.names], self.names)

    def invariant(self, ws_normal, spacetag_some):
        """Representation invariant of a WrappedBlock between two add_text calls."""
        c = [z3.ULE(self.line_len.e, self.width.e),
             z3.ULE(self.text_maxlen.e, self.width.e),
             z3.ULE(self.width.e, U(1 << 20)), z3.ULE(self.wordlen.e, U(1 << 20)), z3.ULE(self.wslen.e, U(1 << 20)),
             z3.ULE(self.text_count.e, U(1 << 20)),
             # a line holding text has content elements and vice versa is not required (zero-width text)
             z3.Implies(self.line_len.e != 0, self.line_nonempty.e),
             z3.Implies(self.wordlen.e != 0, self.word_nonempty.e),
             # pending whitespace always has a tag
             z3.BoolVal(True) if spacetag_some else (self.wslen.e == 0)]
        if ws_normal:
            c += [z3.ULE(self.wslen.e, U(1)), z3.Implies(self.wslen.e != 0, self.line_len.e != 0)]
        return c

    def get(self, st, blockref, name):
        blk = self.exe.deref(st, blockref)
        return blk.fields[self.names.index(name)]

    # ---- contracts ---------------------------------------------------------------------------
    def install(self, hard_wrap="contract"):
        exe = self.exe
        orig = summaries.summarize
        model = self

        def upd_line(st, ref, fn):
            l = exe.deref(st, ref)
            if not (isinstance(l, VAgg) and l.path == "TaggedLine"):
                raise PathEnd("TaggedLine contract on %r" % (l,))
            v, ln, ne, gw = l.fields
            nv = fn(v, ln, ne, gw)
            exe.write_ref(st, ref, [], VAgg("TaggedLine", None, list(nv)), None)

        def summ(exe_, st, f, bb, callee, args, dest_ty):
            c = re.sub(r"\s+", " ", callee.strip())
            if re.search(r"TaggedLine::<.*>::new$", c):
                return [(st, tagged_line(exe, exe.fresh_name("newline"), VInt(U(0), 64, False), VBool(z3.BoolVal(False)), VInt(U(0), 64, False),
                                         content=[] if getattr(model, "track", False) else None))]
            if re.search(r"TaggedLine::<.*>::is_empty$", c):
                l = exe.deref(st, args[0])
                return [(st, VBool(z3.Not(l.fields[2].e)))]
            if re.search(r"TaggedLine::<.*>::width$", c):
                l = exe.deref(st, args[0])
                return [(st, l.fields[1])]
            if re.search(r"TaggedLine::<.*>::push_char$", c):
                ch = args[1]
                w = z3.If(char_is_control(ch.e), U(0), char_width(ch.e))
                upd_line(st, args[0], lambda v, ln, ne, gw: (_app(v, ch), VInt(ln.e + w, 64, False), VBool(z3.BoolVal(True)), VInt(gw.e + w, 64, False)))
                return [(st, VUnit())]
            if re.search(r"TaggedLine::<.*>::push_ws$", c):
                n = args[1]
                upd_line(st, args[0], lambda v, ln, ne, gw: (_app(v, VAgg("ws", None, [n])), VInt(ln.e + n.e, 64, False), VBool(z3.Or(ne.e, n.e != 0)), VInt(gw.e + n.e, 64, False)))
                return [(st, VUnit())]
            if re.search(r"TaggedLine::<.*>::push$", c):
                el = args[1]
                if isinstance(el, VAgg) and el.variant == "Str":
                    ts = el.fields[0]
                    s = ts.fields[0]
                    if not (isinstance(s, VAgg) and s.path == "StrModel"):
                        raise PathEnd("push of a string that is not a model")
                    w, nb = s.fields
                    upd_line(st, args[0], lambda v, ln, ne, gw: (_app(v, s), VInt(ln.e + z3.If(nb.e != 0, w.e, U(0)), 64, False),
                                                                 VBool(z3.Or(ne.e, nb.e != 0)), VInt(gw.e + z3.If(nb.e != 0, w.e, U(0)), 64, False)))
                    return [(st, VUnit())]
                upd_line(st, args[0], lambda v, ln, ne, gw: (_app(v, el), ln, ne, gw))
                return [(st, VUnit())]  # fragment marker: no width, not text
            if re.search(r"TaggedLine::<.*>::consume$", c):
                src = exe.deref(st, args[1])
                sv, sl, sne, sgw = src.fields
                upd_line(st, args[0], lambda v, ln, ne, gw: (_app(v, *(sv.elems if isinstance(sv, VVec) else ())), VInt(ln.e + sgw.e, 64, False),
                                                             VBool(z3.Or(ne.e, sne.e)), VInt(gw.e + sgw.e, 64, False)))
                exe.write_ref(st, args[1], [], VAgg("TaggedLine", None, [VVec([]) if isinstance(sv, VVec) else sv, sl, VBool(z3.BoolVal(False)), VInt(U(0), 64, False)]), None)
                return [(st, VUnit())]
            if re.search(r"std::str::<impl str>::repeat$", c):
                n = args[1]
                return [(st, str_model(n, n))]
            if re.search(r"std::mem::swap::<", c):
                a, b = exe.deref(st, args[0]), exe.deref(st, args[1])
                exe.write_ref(st, args[0], [], b, None)
                exe.write_ref(st, args[1], [], a, None)
                return [(st, VUnit())]
            if re.search(r"Vec::<TaggedLine<\w+>>::push$", c):
                t = exe.deref(st, args[0])
                if isinstance(t, VAgg) and t.path == "LinesModel":
                    ln = args[1].fields[1]
                    cnt, mx = t.fields[0], t.fields[1]
                    cont = None
                    if len(t.fields) == 3:
                        lv = args[1].fields[0]
                        cont = VVec(list(t.fields[2].elems) + (list(lv.elems) if isinstance(lv, VVec) else [VOpaque("line", "untracked")]))
                    exe.write_ref(st, args[0], [], lines_model(VInt(cnt.e + 1, 64, False), VInt(z3.If(z3.UGT(ln.e, mx.e), ln.e, mx.e), 64, False), cont), None)
                    return [(st, VUnit())]
            if re.search(r"Option::<.*>::take$", c):
                cur = exe.deref(st, args[0])
                exe.write_ref(st, args[0], [], VAgg("Option::None", "None", []), None)
                return [(st, cur)]
            if re.search(r"Option::<.*>::as_ref$", c):
                cur = exe.deref(st, args[0])
                if isinstance(cur, VAgg) and cur.variant == "Some":
                    return [(st, VAgg("Option::Some", "Some", [VRef("val", cur.fields[0])]))]
                return [(st, cur)]
            if re.search(r" as Clone>::clone$", c):
                return [(st, VOpaque("T", exe.fresh_name("tagclone")))]
            if re.search(r"char::methods::<impl char>::is_whitespace$", c):
                return [(st, VBool(char_is_ws(args[0].e)))]
            if re.search(r"<char as UnicodeWidthChar>::width$", c):
                ch = args[0]
                outs = []
                ctl = char_is_control(ch.e)
                if exe.feasible(st, ctl):
                    s1 = st.clone()
                    s1.pc.append(ctl)
                    outs.append((s1, VAgg("Option::None", "None", [])))
                if exe.feasible(st, z3.Not(ctl)):
                    s2 = st.clone()
                    s2.pc.append(z3.Not(ctl))
                    outs.append((s2, VAgg("Option::Some", "Some", [VInt(char_width(ch.e), 64, False)])))
                return outs
            if re.search(r"core::str::<impl str>::chars$", c):
                txt = args[0]
                if isinstance(txt, VRef):
                    txt = exe.deref(st, txt)
                if isinstance(txt, VVec):
                    return [(st, VIter("vec", txt, 0))]
                raise PathEnd("chars() on a string that is not a model")
            if re.search(r"<Chars<'_> as IntoIterator>::into_iter$", c):
                return [(st, args[0])]
            if re.search(r"<Chars<'_> as Iterator>::next$", c):
                it = exe.deref(st, args[0])
                if it.pos < len(it.src.elems):
                    exe.write_ref(st, args[0], [], VIter("vec", it.src, it.pos + 1), None)
                    return [(st, VAgg("Option::Some", "Some", [it.src.elems[it.pos]]))]
                return [(st, VAgg("Option::None", "None", []))]
            if hard_wrap == "contract" and re.search(r"WrappedBlock::<\w+>::flush_word_hard_wrap$", c):
                # hard wrap contract: emits zero or more full lines, leaves a line that fits, empties the word;
                # fails with TooNarrow only when overflow is not allowed
                model.hard_wrap_calls += 1
                blk = exe.deref(st, args[0])
                names = model.names
                outs = []
                ok = st.clone()
                newlen = exe.fresh("usize", exe.fresh_name("hw.line_len"))
                extra = exe.fresh("usize", exe.fresh_name("hw.lines"))
                fields = list(blk.fields)
                line = fields[names.index("line")]
                word = fields[names.index("word")]
                text = fields[names.index("text")]
                allow = fields[names.index("allow_overflow")]
                width = fields[names.index("width")]
                # the line in progress fits afterwards, with or without overflow (decided on the MIR by wrap_hard_wrap);
                # only lines that were flushed may be wider, and only when overflow is allowed
                ok.pc += [z3.ULE(newlen.e, width.e), z3.ULE(extra.e, U(1 << 20)), z3.ULE(newlen.e, U(1 << 21))]
                lv, wv = line.fields[0], word.fields[0]
                # content (when tracked): the word's elements follow the line's, in order, somewhere on the emitted lines / the new line
                nlv = _app(lv, *(wv.elems if isinstance(wv, VVec) else ())) if isinstance(lv, VVec) else lv
                fields[names.index("line")] = VAgg("TaggedLine", None, [nlv, newlen, VBool(z3.Or(line.fields[2].e, word.fields[2].e)), newlen])
                fields[names.index("word")] = VAgg("TaggedLine", None, [VVec([]) if isinstance(wv, VVec) else wv, VInt(U(0), 64, False), VBool(z3.BoolVal(False)), VInt(U(0), 64, False)])
                cnt, mx = text.fields[0], text.fields[1]
                fields[names.index("text")] = lines_model(VInt(cnt.e + extra.e, 64, False), mx, text.fields[2] if len(text.fields) == 3 else None)
                exe.write_ref(ok, args[0], [], VAgg("WrappedBlock", None, fields, names), None)
                outs.append((ok, VAgg("Result::Ok", "Ok", [VUnit()])))
                err = st.clone()
                err.pc.append(z3.Not(allow.e))
                outs.append((err, VAgg("Result::Err", "Err", [VAgg("TooNarrow", "TooNarrow", [])])))
                return outs
            return orig(exe_, st, f, bb, callee, args, dest_ty)

        summaries.summarize = summ
        self._orig = orig

    def uninstall(self):
        summaries.summarize = self._orig


def ws_mode(name):
    return VAgg("WhiteSpace::" + name, name, [])
