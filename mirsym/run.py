#!/usr/bin/env python3
"""Run the MIR-level solver checks ("specs") for one property.

usage: run.py --prop C06 --src <crate dir (scratch copy of /repo)> --out <json> [--tier quick|thorough]

Dumps the crate's MIR with the nightly toolchain (regenerated from the
current source on every run), executes the selected functions / slices
symbolically (sym.py) and decides every obligation with Z3; each verdict that
matters (a finding, or the final 'no finding' of a spec) is cross-checked
with cvc5 on the SMT-LIB text of the query.
"""
import argparse
import json
import os
import re
import subprocess
import sys
import time

HERE = os.path.dirname(os.path.abspath(__file__))
sys.path.insert(0, HERE)

import z3  # noqa: E402
from mir import parse_mir  # noqa: E402
import specs  # noqa: E402


def dump_mir(src, target_dir):
    env = dict(os.environ)
    env["CARGO_NET_OFFLINE"] = "true"
    env.pop("RUSTFLAGS", None)
    # touch lib.rs so that cargo re-runs rustc and prints the MIR again
    os.utime(os.path.join(src, "src", "lib.rs"), None)
    cmd = ["cargo", "+nightly", "rustc", "--offline", "--lib", "--features", "css", "--target-dir", target_dir, "--",
           "-Zunpretty=mir", "-C", "debug-assertions=off", "-C", "overflow-checks=on", "--cap-lints", "allow"]
    t0 = time.time()
    p = subprocess.run(cmd, cwd=src, env=env, capture_output=True, text=True)
    if p.returncode != 0 or len(p.stdout) < 1000:
        raise RuntimeError("MIR dump failed:\n" + p.stderr[-2000:])
    return p.stdout, time.time() - t0, " ".join(cmd)


def main():
    ap = argparse.ArgumentParser()
    ap.add_argument("--prop", required=True)
    ap.add_argument("--src", required=True)
    ap.add_argument("--out", required=True)
    ap.add_argument("--tier", default="quick")
    ap.add_argument("--mir", default=None, help="use an existing MIR dump (debugging)")
    ap.add_argument("--only", default=None)
    ap.add_argument("--specs", default=None, help="comma separated spec names chosen by the driver (harness/catalog.json)")
    ap.add_argument("--target-dir", default=os.path.join(os.path.dirname(HERE), "build", "mir"))
    a = ap.parse_args()
    t0 = time.time()
    if a.mir:
        text, dump_s, cmd = open(a.mir).read(), 0.0, "(existing dump)"
    else:
        text, dump_s, cmd = dump_mir(a.src, a.target_dir)
    ctx = specs.Context(text, a.src, a.tier)
    results = []
    for spec in specs.ALL:
        if a.only and spec.name != a.only:
            continue
        if a.specs is not None:
            if spec.name not in a.specs.split(","):
                continue
        elif not a.only:
            if a.prop not in spec.properties:
                continue
            if a.tier == "quick" and spec.tier != "quick":
                continue
        r = specs.run_spec(spec, ctx)
        results.append(r)
        print("  mirsym %-28s %-12s %5.1fs paths=%d queries=%d %s" % (
            spec.name, r["result"], r["wall_s"], r["paths"], r["queries"], r.get("detail", "")[:140]), flush=True)
    out = {"property": a.prop, "tier": a.tier, "mir_dump_s": round(dump_s, 1), "mir_cmd": cmd,
           "mir_bytes": len(text), "specs": results, "wall_s": round(time.time() - t0, 1),
           "z3_version": z3.get_version_string()}
    with open(a.out, "w") as f:
        json.dump(out, f, indent=1)
    return 0


if __name__ == "__main__":
    sys.exit(main())
