"""Specifications checked on html2text's MIR by the symbolic executor.

Each spec: locates real functions / closures / block slices in the MIR dump
(by debug-variable names and statement patterns, never by hard-coded block
numbers), states preconditions over the lazily created symbolic inputs,
executes all paths, and states postconditions.  Findings carry a Z3 model
that `replay` turns into the input vector of a native replay harness.
"""
import os
import re
import subprocess
import tempfile
import time

import z3

from mir import parse_mir, INT_TYPES
from sym import (VSlice, Executor, State, VInt, VBool, VAgg, VVec, VRef, VOpaque, VUnit, VIter, Finding, PathEnd, is_true)


class Context:
    def __init__(self, mir_text, src, tier):
        self.text = mir_text
        self.src = src
        self.tier = tier
        self.funcs = parse_mir(mir_text)
        self.enums = parse_enums(src)
        self.structs = parse_structs(src)

    def find(self, name_re=None, debug=None, first=False):
        """Functions whose name matches and which have all the given debug variable names."""
        out = []
        for name, f in self.funcs.items():
            if name_re and not re.search(name_re, name):
                continue
            if debug and not all(d in f.debug for d in debug):
                continue
            out.append(f)
        return out

    def field(self, struct, field):
        return self.structs[struct].index(field)


def parse_enums(src):
    enums = {}
    for root, _, files in os.walk(os.path.join(src, "src")):
        for fn in files:
            if not fn.endswith(".rs"):
                continue
            text = open(os.path.join(root, fn), errors="replace").read()
            modname = os.path.splitext(fn)[0]
            for m in re.finditer(r"enum (\w+)(?:<[^>]*>)?\s*\{(.*?)\n\}", text, re.S):
                body = re.sub(r"//.*", "", m.group(2))
                # variants behind optional cargo features are not part of the build that is checked
                body = re.sub(r"#\[cfg\(feature = \"(css_ext|html_trace|html_trace_bt)\"\)\]\s*(?:///.*\n\s*)*\w+(?:\([^)]*\)|\s*\{[^}]*\})?\s*,?", "", body)
                body = re.sub(r"#\[[^\]]*\]", "", body)
                names = []
                depth = 0
                cur = ""
                for ch in body:
                    if ch in "({[":
                        depth += 1
                    elif ch in ")}]":
                        depth -= 1
                    elif ch == "," and depth == 0:
                        mm = re.match(r"\s*(\w+)", cur)
                        if mm:
                            names.append(mm.group(1))
                        cur = ""
                        continue
                    if depth == 0 or ch in "({[":
                        cur += ch if depth == 0 else ""
                mm = re.match(r"\s*(\w+)", cur)
                if mm:
                    names.append(mm.group(1))
                enums.setdefault(m.group(1), names)
                enums[modname + "::" + m.group(1)] = names
    return enums


def parse_structs(src):
    structs = {}
    for root, _, files in os.walk(os.path.join(src, "src")):
        for fn in files:
            if not fn.endswith(".rs"):
                continue
            text = open(os.path.join(root, fn), errors="replace").read()
            for m in re.finditer(r"struct (\w+)(?:<[^>]*>)?\s*\{(.*?)\n\}", text, re.S):
                body = re.sub(r"//.*", "", m.group(2))
                body = re.sub(r"#\[[^\]]*\]", "", body)
                names = re.findall(r"(?:pub(?:\([^)]*\))?\s+)?(\w+)\s*:(?!:)", body)
                # keep declaration order, first occurrence of each
                seen = []
                for n in names:
                    if n not in seen:
                        seen.append(n)
                structs.setdefault(m.group(1), seen)
    return structs


class Spec:
    def __init__(self, name, properties, body, tier="quick", functions=None, bounds="", assumptions=None, replay=None):
        self.name, self.properties, self.body, self.tier = name, properties, body, tier
        self.functions = functions or []
        self.bounds = bounds
        self.assumptions = assumptions or []
        self.replay = replay


class Inconclusive(Exception):
    pass


def cvc5_check(query, timeout_s=30):
    s = z3.Solver()
    s.add(*query)
    text = "(set-logic ALL)\n" + s.to_smt2()
    with tempfile.NamedTemporaryFile("w", suffix=".smt2", delete=False) as f:
        f.write(text)
        path = f.name
    try:
        p = subprocess.run(["cvc5", "--lang", "smt2", "--tlimit", str(timeout_s * 1000), "--solve-bv-as-int=sum", path],
                           capture_output=True, text=True, timeout=timeout_s + 10)
        out = p.stdout.strip().split("\n")[0] if p.stdout.strip() else ""
        if "(error" in p.stdout or "(error" in p.stderr:
            return "error"
        return out if out in ("sat", "unsat") else "unknown"
    except Exception:
        return "unknown"
    finally:
        os.unlink(path)


def run_spec(spec, ctx):
    t0 = time.time()
    exe_holder = {}

    def make_exe(**kw):
        e = Executor(ctx.funcs, enums=ctx.enums, **kw)
        e.mir_text = ctx.text
        exe_holder.setdefault("exes", []).append(e)
        return e

    res = {"spec": spec.name, "properties": spec.properties, "functions_encoded": list(spec.functions),
           "bounds": spec.bounds, "assumptions": list(spec.assumptions)}
    try:
        info = spec.body(ctx, make_exe) or {}
        status = "pass"
        detail = ""
    except Inconclusive as e:
        info = {}
        status = "inconclusive"
        detail = str(e)
    except Exception as e:   # a modelling gap in the spec or the executor is never a verdict
        import traceback
        info = {}
        status = "inconclusive"
        tb = traceback.extract_tb(e.__traceback__)[-1]
        detail = "internal error: %s: %s (%s:%d)" % (type(e).__name__, str(e)[:200], os.path.basename(tb.filename), tb.lineno)
        for ex in exe_holder.get("exes", []):
            for nm in ("findings", "obligations"):
                pass
    exes = exe_holder.get("exes", [])
    findings = []
    unsupported = []
    obligations = 0
    discharged = 0
    cross = {"agree": 0, "disagree": 0, "cvc5_unknown": 0}
    for e in exes:
        for fd in e.findings:
            if fd.kind == "unsupported":
                unsupported.append("%s %s: %s" % (fd.func[-40:], fd.bb, fd.msg))
            else:
                findings.append((e, fd))
        for ob in e.obligations:
            obligations += 1
            if ob["verdict"] == "unsat":
                discharged += 1
            if ob["verdict"] == "unknown":
                status = "inconclusive"
                detail = "solver returned unknown on: " + ob["msg"]
            # second solver
            v2 = cvc5_check(ob["query"])
            if v2 in ("sat", "unsat"):
                if v2 == ob["verdict"]:
                    cross["agree"] += 1
                elif ob["verdict"] in ("sat", "unsat"):
                    cross["disagree"] += 1
            else:
                cross["cvc5_unknown"] += 1
        if e.unknown:
            status = "inconclusive"
            detail = "solver returned unknown (%d queries)" % len(e.unknown)
    if cross["disagree"]:
        status = "inconclusive"
        detail = "z3 and cvc5 disagree on %d obligations" % cross["disagree"]
    if unsupported and status == "pass":
        status = "inconclusive"
        detail = "unsupported MIR construct: " + unsupported[0]
    if status == "pass" and obligations + sum(e.trivial_obligations for e in exes) == 0:
        # vacuity guard: a spec that reaches no obligation has shown nothing
        status = "inconclusive"
        detail = "no proof obligation was reached (vacuous run)"
    fl = []
    if findings:
        # a finding is reported even when the run is otherwise inconclusive: the driver replays it natively and
        # only a reproducing replay becomes a violation, everything else stays exit 2
        inconclusive_reason = detail if status == "inconclusive" else ""
        status = "fail"
    for (e, fd) in findings:
        rec = {"kind": fd.kind, "function": fd.func, "block": fd.bb, "message": fd.msg, "tag": fd.tag}
        if fd.model is not None:
            vals = dict(fd.model)
            rec["model"] = {k: vals[k] for k in sorted(vals)}
            if spec.replay:
                try:
                    rec["replay"] = spec.replay(fd, vals, info)
                except Exception as ex:  # replay mapping is best-effort
                    rec["replay_error"] = str(ex)
        fl.append(rec)
    if fl:
        detail = "; ".join("%s@%s %s" % (r["kind"], r["block"], r["message"][:70]) for r in fl[:3])
    res.update({
        "result": status, "detail": detail, "findings": fl, "unsupported": unsupported[:10],
        "paths": sum(e.stats.paths for e in exes), "blocks_executed": sum(e.stats.blocks for e in exes),
        "queries": sum(e.stats.queries for e in exes), "solver_s": round(sum(e.stats.solver_s for e in exes), 3),
        "obligations": obligations + sum(e.trivial_obligations for e in exes),
        "discharged": discharged + sum(e.trivial_obligations for e in exes),
        "obligations_decided_by_simplification": sum(e.trivial_obligations for e in exes), "cross_check_cvc5": cross,
        "decided_by": _merge_counts([e.stats.decided_by for e in exes]),
        "summaries_used": sorted(set().union(*[e.stats.summaries for e in exes])) if exes else [],
        "havoc_calls": sorted(set().union(*[e.stats.havoc for e in exes])) if exes else [],
        "inlined": sorted(set().union(*[e.stats.inlined for e in exes])) if exes else [],
        "wall_s": round(time.time() - t0, 2), "info": {k: v for k, v in info.items() if isinstance(v, (str, int, float, list))},
    })
    return res


def _merge_counts(ds):
    out = {}
    for d in ds:
        for k, v in d.items():
            out[k] = out.get(k, 0) + v
    return out


# ----------------------------------------------------------------------------
# helpers for specs
# ----------------------------------------------------------------------------

def the(funcs, what):
    if len(funcs) != 1:
        raise Inconclusive("expected exactly one function for %s, found %d" % (what, len(funcs)))
    return funcs[0]


def post(exe, st, cond, func, msg, tag="postcondition"):
    exe.oblige(st, cond, "postcondition", func, "return", msg, tag=tag)


def u64(v):
    return z3.BitVecVal(v, 64)


def le_bytes(value, nbytes):
    value &= (1 << (8 * nbytes)) - 1
    return [(value >> (8 * i)) & 0xff for i in range(nbytes)]


# ----------------------------------------------------------------------------
# SPEC: table column width formula  (render_table_tree's `.map(|sz| ...)` closure)
# ----------------------------------------------------------------------------

def spec_table_col_width(ctx, make_exe):
    f = the(ctx.find(r"render_table_tree::\{closure", debug=["sz", "width", "tot_size"]), "column width closure")
    exe = make_exe()
    st = State()
    # closure argument _2: &SizeEstimate ; captured &width, &tot_size behind _1
    i_size, i_min = ctx.field("SizeEstimate", "size"), ctx.field("SizeEstimate", "min_width")
    size = exe.fresh("usize", "sz.size")
    minw = exe.fresh("usize", "sz.min_width")
    width = exe.fresh("usize", "width")
    tot = exe.fresh("usize", "tot_size")
    fields = [None, None, None]
    fields[i_size] = size
    fields[i_min] = minw
    fields[ctx.field("SizeEstimate", "prefix_size")] = exe.fresh("usize", "sz.prefix_size")
    sz = VAgg("SizeEstimate", None, fields)
    # captured environment: order of captures follows first use; find it from the debug lines
    cap = {}
    for name in ("width", "tot_size"):
        m = re.search(r"\(\*_1\)\.(\d+)", f.debug[name])
        cap[int(m.group(1))] = VRef("val", width if name == "width" else tot)
    envv = VAgg("closure", None, [cap[k] for k in sorted(cap)])
    # preconditions established by the caller: the side-by-side layout is only computed when
    # width >= 1, and tot_size is the sum of all column sizes (>= this column's size)
    st.pc += [z3.UGE(width.e, u64(1)), z3.UGE(tot.e, size.e), z3.ULE(minw.e, size.e)]
    outs = exe.run(f.name, {1: VRef("val", envv), 2: VRef("val", sz)}, st)
    for (s2, ret) in outs:
        if not isinstance(ret, VInt):
            raise Inconclusive("closure did not return an integer")
        post(exe, s2, z3.ULE(ret.e, size.e), f.name, "a column is never wider than its content estimate")
        post(exe, s2, z3.Implies(size.e == 0, ret.e == 0), f.name, "an empty column gets no width")
        post(exe, s2, z3.Implies(z3.And(size.e != 0, minw.e != 0), ret.e != 0), f.name,
             "a column with content and a non-zero minimum width gets space")
        post(exe, s2, z3.UGE(ret.e, minw.e), f.name, "a column gets at least its minimum width")
    return {"function": f.name, "paths": len(outs)}


def replay_table_col_width(fd, vals, info):
    order = [("sz.size", 8), ("sz.min_width", 8), ("width", 8), ("tot_size", 8)]
    return {"harness": "m_table_col_width", "values": [le_bytes(int(vals.get(k, 0)), n) for k, n in order]}


# ----------------------------------------------------------------------------
# SPEC: nth-child arithmetic in Selector::do_matches (slice after the sibling loop)
# ----------------------------------------------------------------------------

def spec_nth_child_arith(ctx, make_exe):
    f = the(ctx.find(r"do_matches$", debug=["idx", "idx_offset", "a", "b"]), "Selector::do_matches")
    idx_local = int(f.debug["idx"][1:])
    a_local = int(f.debug["a"][1:])
    b_local = int(f.debug["b"][1:])
    # entry: the block that tests `idx == 0` after the loop: `_t = copy _idx; _c = Eq(move _t, const 0_i32)`
    entry = None
    for name in f.order:
        raw = " ".join(f.blocks[name].raw)
        m = re.search(r"_(\d+) = copy _%d;\s*_\d+ = Eq\(move _\1, const 0_i32\)" % idx_local, raw)
        if m and not f.blocks[name].cleanup:
            entry = name
    if entry is None:
        raise Inconclusive("could not locate the `idx == 0` test after the sibling loop")
    exe = make_exe(timeout_ms=60000)
    st = State()
    idx = exe.fresh("i32", "idx")
    a = exe.fresh("i32", "a")
    b = exe.fresh("i32", "b")
    # idx counts element siblings up to and including the node: 0 <= idx, and a document
    # cannot hold 2^31 siblings
    st.pc += [idx.e >= 0, idx.e < (1 << 30)]
    # the selector parser cannot produce i32::MIN coefficients (it negates a parsed magnitude)
    st.pc += [a.e != -(1 << 31), b.e != -(1 << 31)]
    exe.hints = [idx.e <= 8]
    # the recursive call on the remaining components is an uninterpreted boolean
    rest = z3.Bool("rest_matches")
    exe.inputs["rest_matches"] = rest
    import summaries
    orig = summaries.summarize

    def summ(exe_, st_, f_, bb_, callee, args, dest_ty):
        if re.search(r"Selector::do_matches$", callee.strip()):
            return [(st_, VBool(rest))]
        return orig(exe_, st_, f_, bb_, callee, args, dest_ty)
    summaries.summarize = summ
    try:
        env = {idx_local: idx, a_local: VRef("val", a), b_local: VRef("val", b)}
        outs = exe.run(f.name, {}, st, entry=entry, env_overrides=env)
    finally:
        summaries.summarize = orig
    # Functional check under the property's quantifier (|a|, |b| <= 16, idx <= 16): the reference is
    # the finite disjunction  exists n in 0..=32: a*n + b == idx  (no division in the reference).
    small = z3.And(a.e >= -16, a.e <= 16, b.e >= -16, b.e <= 16, idx.e <= 16)
    alts = [a.e * z3.BitVecVal(n, 32) + b.e == idx.e for n in range(0, 33)]
    matches = z3.And(idx.e != 0, z3.Or(*alts))
    for (s2, ret) in outs:
        if not isinstance(ret, VBool):
            raise Inconclusive("slice did not return a boolean")
        s3 = s2.clone()
        s3.pc.append(small)
        post(exe, s3, ret.e == z3.And(matches, rest), f.name,
             ":nth-child(an+b) matches the idx-th element iff idx = a*n+b for some n >= 0")
    return {"function": f.name, "entry": entry, "paths": len(outs)}


def replay_nth_child(fd, vals, info):
    order = [("a", 4), ("b", 4), ("idx", 4)]
    return {"harness": "m_nth_child", "values": [le_bytes(int(vals.get(k, 0)), n) for k, n in order]}


# ----------------------------------------------------------------------------
# SPEC: RenderTableRow::into_cells on rows of model cells
# ----------------------------------------------------------------------------

def _cell(ctx, exe, tag, colspan):
    names = ctx.structs["RenderTableCell"]
    fields = []
    for n in names:
        if n == "colspan":
            fields.append(colspan)
        elif n == "col_width":
            fields.append(VAgg("Option::None", "None", []))
        else:
            fields.append(VOpaque(n, "%s.%s" % (tag, n)))
    return VAgg("RenderTableCell", None, fields, names)


def spec_into_cells(ctx, make_exe):
    f = the(ctx.find(r"::into_cells$", debug=["col_sizes", "vertical", "colspan", "col_width"]), "RenderTableRow::into_cells")
    i_colspan = ctx.field("RenderTableCell", "colspan")
    i_colw = ctx.field("RenderTableCell", "col_width")
    rnames = ctx.structs["RenderTableRow"]
    total_paths = 0
    for ncells, ncols in ((1, 3), (2, 3), (3, 3), (2, 4)):
        for vertical in (False, True):
            exe = make_exe(inline=[r"RenderNode::new_styled$"])
            st = State()
            spans = [exe.fresh("usize", "colspan%d" % k) for k in range(ncells)]
            widths = [exe.fresh("usize", "w%d" % k) for k in range(ncols)]
            for sp in spans:
                st.pc.append(z3.UGE(sp.e, u64(1)))  # RenderTable::new leaves every colspan >= 1
            tot = spans[0].e
            for sp in spans[1:]:
                tot = tot + sp.e
            for sp in spans:
                st.pc.append(z3.ULE(sp.e, u64(ncols)))
            st.pc.append(z3.ULE(tot, u64(ncols)))  # a row never spans more columns than the table has
            for w in widths:
                st.pc.append(z3.ULE(w.e, u64(1 << 32)))
            if vertical:
                # stacked layout: render_table_tree sets every column width to the table width (>= 1)
                for w in widths[1:]:
                    st.pc.append(w.e == widths[0].e)
                st.pc.append(z3.UGE(widths[0].e, u64(1)))
            cells = [_cell(ctx, exe, "cell%d" % k, spans[k]) for k in range(ncells)]
            rfields = []
            for n in rnames:
                if n == "cells":
                    rfields.append(VVec(cells))
                elif n == "col_sizes":
                    rfields.append(VAgg("Option::Some", "Some", [VVec(widths)]))
                else:
                    rfields.append(VOpaque(n, "row." + n))
            row = VAgg("RenderTableRow", None, rfields, rnames)
            outs = exe.run(f.name, {1: row, 2: VBool(z3.BoolVal(vertical))}, st)
            total_paths += len(outs)
            for (s2, ret) in outs:
                if not isinstance(ret, VVec):
                    raise Inconclusive("into_cells did not return a vector (%r)" % (ret,))
                # reference per cell
                start = u64(0)
                kept = []
                for k in range(ncells):
                    sp = spans[k].e
                    if vertical:
                        base = _select(widths, start)
                    else:
                        base = _range_sum(widths, start, start + sp)
                    kept.append((k, base, sp))
                    start = start + sp
                # which cells are present is path dependent; recover by position
                pos = 0
                for (k, base, sp) in kept:
                    present = z3.UGT(base, u64(0))
                    if is_true(z3.simplify(z3.substitute(present))) or exe.feasible(s2, present):
                        pass
                # Walk the returned nodes: each is RenderNode{info: TableCell(cell)}; identify cells by their tag
                seen = []
                for node in ret.elems:
                    cell = _find_cell(node)
                    if cell is None:
                        raise Inconclusive("returned node is not a table cell")
                    tag = cell.fields[ctx.field("RenderTableCell", "content")]
                    k = int(re.match(r"cell(\d+)\.", tag.name).group(1))
                    seen.append(k)
                    base, sp = kept[k][1], kept[k][2]
                    cw = cell.fields[i_colw]
                    if not (isinstance(cw, VAgg) and cw.variant == "Some"):
                        post(exe, s2, z3.BoolVal(False), f.name, "a returned cell has no width assigned")
                        continue
                    got = cw.fields[0].e
                    if vertical:
                        post(exe, s2, z3.ULE(got, widths[0].e), f.name,
                             "a stacked cell is never wider than the table (colspan %d cells)" % ncells)
                        post(exe, s2, z3.UGE(got, u64(1)), f.name, "a stacked cell has a positive width")
                    else:
                        post(exe, s2, got == base + sp - 1, f.name,
                             "cell width = sum of spanned columns + separators between them")
                    post(exe, s2, z3.UGT(base, u64(0)), f.name, "only cells with allocated width are rendered")
                post(exe, s2, z3.BoolVal(seen == sorted(seen)), f.name, "cells keep their left-to-right order")
                # no cell with width is dropped
                for (k, base, sp) in kept:
                    if k not in seen:
                        post(exe, s2, base == 0, f.name, "a cell is skipped only when its columns have zero width")
    return {"function": f.name, "paths": total_paths}


def _select(vals, idx):
    e = vals[-1].e
    for k in range(len(vals) - 2, -1, -1):
        e = z3.If(idx == u64(k), vals[k].e, e)
    return e


def _range_sum(vals, start, end):
    t = u64(0)
    for k, v in enumerate(vals):
        t = t + z3.If(z3.And(z3.ULE(start, u64(k)), z3.ULT(u64(k), end)), v.e, u64(0))
    return t


def _find_cell(node):
    """RenderNode { size_estimate, info: RenderNodeInfo::TableCell(cell), style } -> cell"""
    if isinstance(node, VAgg):
        if node.variant == "TableCell" and node.fields:
            return node.fields[0]
        for fl in node.fields:
            c = _find_cell(fl)
            if c is not None:
                return c
    return None


def replay_into_cells(fd, vals, info):
    # harness draws: vertical(bool) ncells(u8) ncols(u8) colspans[3](usize) widths[4](usize)
    spans = [int(vals.get("colspan%d" % k, 0)) for k in range(3)]
    ws = [int(vals.get("w%d" % k, 0)) for k in range(4)]
    ncells = sum(1 for k in range(3) if ("colspan%d" % k) in vals)
    ncols = sum(1 for k in range(4) if ("w%d" % k) in vals)
    vertical = "stacked" in fd.msg
    v = [[1 if vertical else 0], [ncells], [ncols]]
    v += [le_bytes(s, 8) for s in spans] + [le_bytes(w, 8) for w in ws]
    return {"harness": "m_into_cells", "values": v}


# ----------------------------------------------------------------------------
# SPEC: render_table_tree (whole function): column estimation, allocation, shrink loop
# ----------------------------------------------------------------------------

def _agg(ctx, struct, **kw):
    names = ctx.structs[struct]
    fields = []
    for n in names:
        fields.append(kw[n] if n in kw else VOpaque(n, "%s.%s" % (struct, n)))
    return VAgg(struct, None, fields, names)


def _estimate(ctx, size, minw, prefix=None):
    return _agg(ctx, "SizeEstimate", size=size, min_width=minw,
                prefix_size=prefix if prefix is not None else VInt(u64(0), 64, False))


def _table_cell(ctx, tag, colspan, est):
    some = VAgg("Option::Some", "Some", [est])
    return _agg(ctx, "RenderTableCell", colspan=colspan, size_estimate=VAgg("Cell", None, [some]),
                col_width=VAgg("Option::None", "None", []), content=VOpaque("content", tag + ".content"))


def _renderer(ctx, exe, width, raw, draw_borders):
    opts = _agg(ctx, "RenderOptions", raw=raw, draw_borders=draw_borders)
    sub = _agg(ctx, "SubRenderer", width=width, options=opts)
    tr = VOpaque("TextRenderer<D>", "renderer")
    exe.cell_n += 1
    cid = "cell%d" % exe.cell_n
    exe.global_cells[cid] = sub
    tr.memo["#top"] = VRef("cell", cid)
    return VRef("val", tr)


def _run_table(ctx, make_exe, shape, max_size, max_width, post_fn, loop_bound=40):
    """shape: list of rows, each a list of colspans (python ints). Cell estimates symbolic."""
    f = the(ctx.find(r"^render_table_tree$"), "render_table_tree")
    ncols = max(sum(r) for r in shape)
    exe = make_exe(inline=[r"RenderTable::rows$", r"RenderTableRow::cells$", r"RenderTableCell::get_size_estimate$",
                           r"SizeEstimate::max$", r"<SizeEstimate as Default>::default$",
                           r"<SubRenderer<D> as Renderer>::width$"],
                   loop_bound=loop_bound, timeout_ms=120000, fallback_timeout_s=300)
    st = State()
    width = exe.fresh("usize", "width")
    raw = exe.fresh("bool", "raw")
    borders = exe.fresh("bool", "draw_borders")
    st.pc += [z3.ULE(width.e, u64(max_width))]
    cells_meta = []
    rows = []
    for ri, row in enumerate(shape):
        cells = []
        for ci, span in enumerate(row):
            size = exe.fresh("usize", "r%dc%d.size" % (ri, ci))
            minw = exe.fresh("usize", "r%dc%d.min" % (ri, ci))
            st.pc += [z3.ULE(size.e, u64(max_size)), z3.ULE(minw.e, size.e)]
            cells.append(_table_cell(ctx, "r%dc%d" % (ri, ci), VInt(u64(span), 64, False), _estimate(ctx, size, minw)))
            cells_meta.append((ri, ci, span, size, minw))
        rows.append(_agg(ctx, "RenderTableRow", cells=VVec(cells), col_sizes=VAgg("Option::None", "None", [])))
    table = _agg(ctx, "RenderTable", rows=VVec(rows), num_columns=VInt(u64(ncols), 64, False))
    import summaries
    orig = summaries.summarize

    def summ(exe_, st_, f_, bb_, callee, args, dest_ty):
        c = callee.strip()
        if re.search(r"as Renderer>::(start_block|add_horizontal_border_width)$", c):
            return [(st_, VAgg("Result::Ok", "Ok", [VUnit()]))]  # rendering the block start succeeds
        if re.search(r"RenderTable::into_rows$", c):
            return [(st_, VOpaque("Vec<RenderNode>", "rows_out"))]
        return orig(exe_, st_, f_, bb_, callee, args, dest_ty)
    summaries.summarize = summ
    try:
        outs = exe.run(f.name, {1: _renderer(ctx, exe, width, raw, borders), 2: table, 3: VOpaque("&mut T", "err_out")}, st)
    finally:
        summaries.summarize = orig
    n_checked = 0
    for (s2, ret) in outs:
        calls = [c for c in s2.calls if re.search(r"RenderTable::into_rows$", c[0])]
        if len(calls) != 1:
            post(exe, s2, z3.BoolVal(False), f.name, "render_table_tree hands the column widths to into_rows exactly once")
            continue
        _, cargs, _, _ = calls[0]
        cols, vert = cargs[1], cargs[2]
        if not isinstance(cols, VVec) or not isinstance(vert, VBool):
            raise Inconclusive("could not recover column widths / layout flag")
        n_checked += 1
        post_fn(exe, s2, f, cols, vert, width, raw, cells_meta, ncols, shape)
    if n_checked == 0:
        raise Inconclusive("no path reached into_rows")
    return {"function": f.name, "paths": len(outs), "shape": str(shape)}


def _post_table(exe, s2, f, cols, vert, width, raw, cells_meta, ncols, shape):
    ws = [c.e for c in cols.elems]
    post(exe, s2, z3.BoolVal(len(ws) == ncols), f.name, "one width per column")
    # per-column estimates as the function is documented to compute them: max over rows of the cell's share
    col_size = [u64(0)] * ncols
    col_min = [u64(0)] * ncols
    for (ri, ci, span, size, minw) in cells_meta:
        start = sum(shape[ri][:ci])
        for k in range(start, start + span):
            sh = z3.UDiv(size.e, u64(span))
            mh = z3.UDiv(minw.e, u64(span))
            col_size[k] = z3.If(z3.UGT(sh, col_size[k]), sh, col_size[k])
            col_min[k] = z3.If(z3.UGT(mh, col_min[k]), mh, col_min[k])
    # rounding repair: when the columns a spanning cell covers are together smaller than the cell's estimate,
    # its first column carries the difference (cells are visited row by row, left to right, after all shares are known)
    for (ri, ci, span, size, minw) in cells_meta:
        if span <= 1:
            continue
        start = sum(shape[ri][:ci])
        have_size = u64(0)
        have_min = u64(0)
        for k in range(start, start + span):
            have_size = have_size + col_size[k]
            have_min = have_min + col_min[k]
        ns = col_size[start] + z3.If(z3.UGT(size.e, have_size), size.e - have_size, u64(0))
        nm = col_min[start] + z3.If(z3.UGT(minw.e, have_min), minw.e - have_min, u64(0))
        col_size[start] = z3.If(z3.UGE(ns, nm), ns, nm)
        col_min[start] = nm
    min_size = u64(ncols - 1)
    for m in col_min:
        min_size = min_size + m
    want_vert = z3.Or(raw.e, z3.UGT(min_size, width.e), width.e == 0)
    post(exe, s2, vert.e == want_vert, f.name, "stacked layout iff raw mode or the minimum widths do not fit")
    total = u64(ncols - 1)
    for w in ws:
        total = total + w
    post(exe, s2, z3.Implies(z3.Not(vert.e), z3.ULE(total, width.e)), f.name,
         "side by side: column widths plus separators fit the table width")
    for k in range(ncols):
        post(exe, s2, z3.Implies(z3.Not(vert.e), z3.UGE(ws[k], col_min[k])), f.name,
             "side by side: column %d keeps at least its minimum width" % k)
        post(exe, s2, z3.Implies(z3.Not(vert.e), z3.ULE(ws[k], col_size[k])), f.name,
             "side by side: column %d is not wider than its content" % k)
        post(exe, s2, z3.Implies(vert.e, ws[k] == width.e), f.name, "stacked: every cell gets the full width")
    # a cell that has content (and a non-zero minimum width) keeps some width, whatever its colspan
    for (ri, ci, span, size, minw) in cells_meta:
        start = sum(shape[ri][:ci])
        tot_w = u64(0)
        for k in range(start, start + span):
            tot_w = tot_w + ws[k]
        post(exe, s2, z3.Implies(z3.And(z3.Not(vert.e), size.e != 0, minw.e != 0), tot_w != 0), f.name,
             "side by side: cell r%dc%d with content (colspan %d) keeps some width" % (ri, ci, span))


def spec_table_alloc_2(ctx, make_exe):
    return _run_table(ctx, make_exe, [[1, 1]], 4, 8, _post_table)


def spec_table_alloc_1(ctx, make_exe):
    return _run_table(ctx, make_exe, [[1]], 4, 8, _post_table)


def spec_table_alloc_3(ctx, make_exe):
    return _run_table(ctx, make_exe, [[1, 1, 1]], 2, 6, _post_table)


def spec_table_alloc_span(ctx, make_exe):
    return _run_table(ctx, make_exe, [[2], [1, 1]], 2, 4, _post_table)


def spec_table_alloc_span_only(ctx, make_exe):
    return _run_table(ctx, make_exe, [[2]], 3, 6, _post_table)


def replay_table_alloc(fd, vals, info):
    # harness draws: width raw nrows; per row ncells; per cell span size min  (fixed shape encoded by name)
    shape = eval(info.get("shape", "[[1,1]]"))
    v = [le_bytes(int(vals.get("width", 0)), 8), [1 if vals.get("raw") else 0], [len(shape)]]
    for ri, row in enumerate(shape):
        v.append([len(row)])
        for ci, span in enumerate(row):
            v += [le_bytes(span, 8), le_bytes(int(vals.get("r%dc%d.size" % (ri, ci), 0)), 8),
                  le_bytes(int(vals.get("r%dc%d.min" % (ri, ci), 0)), 8)]
    return {"harness": "m_table_alloc", "values": v}

# ----------------------------------------------------------------------------
# SPEC: width 0 is rejected before anything is rendered (RenderTree::render_with_context)
# ----------------------------------------------------------------------------

def spec_width_zero(ctx, make_exe):
    f = the(ctx.find(r"::render_with_context$", debug=["width", "context", "decorator"]), "RenderTree::render_with_context")
    exe = make_exe()
    st = State()
    width = exe.fresh("usize", "width")
    st.pc.append(width.e == 0)
    outs = exe.run(f.name, {3: width}, st)
    for (s2, ret) in outs:
        ok = isinstance(ret, VAgg) and ret.variant == "Err" and ret.fields and isinstance(ret.fields[0], VAgg) \
            and ret.fields[0].variant == "TooNarrow"
        post(exe, s2, z3.BoolVal(bool(ok)), f.name, "width 0 returns Err(TooNarrow)")
        made = [c for c in s2.calls if re.search(r"SubRenderer::<.*>::new$|render_tree_to_string", c[0])]
        post(exe, s2, z3.BoolVal(not made), f.name, "width 0 is rejected before any renderer is built")
    if not outs:
        raise Inconclusive("no path returned")
    return {"function": f.name, "paths": len(outs)}


def replay_width_zero(fd, vals, info):
    flags = []
    for k in sorted(vals):
        pass
    # harness draws: allow_overflow raw pad min_wrap_width   (any values: try the all-true corner)
    return {"harness": "r12_width_zero", "values": [[1], [1], [1], le_bytes(0, 8)]}


# ----------------------------------------------------------------------------
# SPEC: ordered-list numbering: estimate and render arm agree, no overflow
# ----------------------------------------------------------------------------

def _ol_slice(ctx, exe, f, start_local, n_value, st):
    """Run the blocks of `f` that compute max_number from (start, num_items); returns [(state, max_number)]."""
    mx_local = int(f.debug["max_number"][1:])
    # entry: block containing the cast `num_items as i64`
    entry = None
    nl = int(f.debug["num_items"][1:])
    for name in f.order:
        raw = " ".join(f.blocks[name].raw)
        if re.search(r"= (?:copy|move) _%d as i64 \(IntToInt\)" % nl, raw) or \
           re.search(r"_(\d+) = copy _%d;\s*_\d+ = move _\1 as i64 \(IntToInt\)" % nl, raw):
            if not f.blocks[name].cleanup:
                entry = name
                break
    if entry is None:
        raise Inconclusive("could not find the `num_items as i64` cast in %s" % f.name)
    # stop at the first block (after entry) whose statements read max_number
    stop = set()
    for name in f.order:
        raw = " ".join(f.blocks[name].raw)
        if name != entry and re.search(r"(copy|move) _%d\b" % mx_local, raw):
            stop.add(name)
    outs = exe.run(f.name, {}, st, entry=entry, env_overrides={start_local: None}, stop_at=stop)
    return outs, mx_local, entry


def spec_ol_numbering(ctx, make_exe):
    est = the(ctx.find(r"^calc_ol_prefix_size$", debug=["start", "num_items", "max_number"]), "calc_ol_prefix_size")
    ren = the(ctx.find(r"^do_render_node$", debug=["start", "num_items", "max_number"]), "do_render_node (Ol arm)")
    results = []
    exe = make_exe(loop_bound=4)
    start = exe.fresh("i64", "start")
    items = exe.fresh("usize", "num_items")
    exe.hints = [z3.ULE(items.e, u64(20)), z3.UGE(items.e, u64(1)), start.e >= -1000, start.e <= 1000]
    values = {}
    for f in (est, ren):
        st = State()
        st.pc.append(z3.ULE(items.e, u64(1 << 32)))
        sl = int(f.debug["start"][1:])
        nl = int(f.debug["num_items"][1:])
        ml = int(f.debug["max_number"][1:])
        entry = None
        for name in f.order:
            raw = " ".join(f.blocks[name].raw)
            if re.search(r"_%d as i64 \(IntToInt\)" % nl, raw) or re.search(r"_(\d+) = copy _%d;.*move _\1 as i64 \(IntToInt\)" % nl, raw):
                if not f.blocks[name].cleanup:
                    entry = name
                    break
        if entry is None:
            raise Inconclusive("no `num_items as i64` in %s" % f.name)
        stop = set(n for n in f.order if n != entry and re.search(r"(copy|move) _%d\b" % ml, " ".join(f.blocks[n].raw)))
        outs = exe.run(f.name, {}, st, entry=entry, env_overrides={sl: start, nl: items}, stop_at=stop)
        got = []
        for (s2, ret) in outs:
            if isinstance(ret, tuple) and ret[0] == "stopped":
                mv = s2.frames[ret[2]].get(ml)
                if isinstance(mv, VInt):
                    got.append((s2, mv))
        if not got:
            raise Inconclusive("max_number not computed on any path of %s" % f.name)
        values[f.name] = got
        # reference: start + items - 1, saturating at the i64 range
        for (s2, mv) in got:
            wide = z3.SignExt(64, start.e) + z3.ZeroExt(64, items.e) - 1
            mx = z3.BitVecVal((1 << 63) - 1, 128)
            mn = z3.BitVecVal(-(1 << 63), 128)
            sat = z3.If(wide > mx, mx, z3.If(wide < mn, mn, wide))
            post(exe, s2, z3.SignExt(64, mv.e) == sat, f.name,
                 "last item number = start + items - 1 (saturating), in %s" % ("the size estimate" if f is est else "the render arm"))
    return {"functions": [est.name, ren.name]}


def replay_ol(fd, vals, info):
    return {"harness": "m_ol_numbering", "values": [le_bytes(int(vals.get("start", 0)), 8), le_bytes(min(int(vals.get("num_items", 0)), 40), 8)]}


# ----------------------------------------------------------------------------
# SPEC: insert_child puts a marker first / last in every container kind
# ----------------------------------------------------------------------------

def spec_insert_child(ctx, make_exe):
    f = the(ctx.find(r"^insert_child$", debug=["new_child", "orig", "position"]), "insert_child")
    kinds = ["Block", "ListItem", "Dd", "Dt", "Dl", "Div", "BlockQuote", "Container", "TableCell", "TableRow", "TableBody",
             "Table", "Text", "Em", "Ul", "Header", "Link", "Break"]
    total = 0
    for kind in kinds:
        for pos in ("Start", "End"):
            exe = make_exe(inline=[r"RenderNode::new$"])
            st = State()
            c0 = VOpaque("RenderNode", "child0")
            c1 = VOpaque("RenderNode", "child1")
            marker = VOpaque("RenderNode", "marker")
            kids = VVec([c0, c1])

            def cell(content):
                return _agg(ctx, "RenderTableCell", content=content, colspan=VInt(u64(1), 64, False))

            def row(cells):
                return _agg(ctx, "RenderTableRow", cells=VVec(cells))
            if kind in ("Block", "ListItem", "Dd", "Dt", "Dl", "Div", "BlockQuote", "Container", "Em", "Ul"):
                info = VAgg("RenderNodeInfo::" + kind, kind, [kids])
            elif kind == "Header":
                info = VAgg("RenderNodeInfo::Header", kind, [VInt(u64(1), 64, False), kids])
            elif kind == "Link":
                info = VAgg("RenderNodeInfo::Link", kind, [VOpaque("String", "href"), kids])
            elif kind == "Text":
                info = VAgg("RenderNodeInfo::Text", kind, [VOpaque("String", "text")])
            elif kind == "Break":
                info = VAgg("RenderNodeInfo::Break", kind, [])
            elif kind == "TableCell":
                info = VAgg("RenderNodeInfo::TableCell", kind, [cell(kids)])
            elif kind == "TableRow":
                info = VAgg("RenderNodeInfo::TableRow", kind, [row([cell(kids), cell(VVec([VOpaque("RenderNode", "other")]))]), VBool(z3.BoolVal(False))])
            elif kind == "TableBody":
                info = VAgg("RenderNodeInfo::TableBody", kind, [VVec([row([cell(kids)])])])
            elif kind == "Table":
                info = VAgg("RenderNodeInfo::Table", kind, [_agg(ctx, "RenderTable", rows=VVec([row([cell(kids)])]))])
            orig = _agg(ctx, "RenderNode", info=info)
            position = VAgg("ChildPosition::" + pos, pos, [])
            outs = exe.run(f.name, {1: marker, 2: orig, 3: position}, st)
            total += len(outs)
            for (s2, ret) in outs:
                seq = _flatten_nodes(ctx, ret)
                want = (["marker", "child0", "child1"] if pos == "Start" else ["child0", "child1", "marker"])
                if kind in ("Text", "Break"):
                    want = ["marker", "ORIG"] if pos == "Start" else ["ORIG", "marker"]
                got = [x for x in seq if x in ("marker", "child0", "child1", "ORIG")]
                post(exe, s2, z3.BoolVal(got == want), f.name,
                     "insert_child(%s, %s): marker is %s and no child is lost or reordered (got %s)" % (kind, pos, "first" if pos == "Start" else "last", got))
    return {"function": f.name, "paths": total}


def _flatten_nodes(ctx, v, depth=0):
    """Pre-order names of opaque RenderNodes reachable in a value."""
    out = []
    if depth > 12:
        return out
    if isinstance(v, VOpaque):
        if v.ty == "RenderNode":
            out.append(v.name)
        return out
    if isinstance(v, VAgg):
        if v.path == "RenderNode" and v.names:
            info = v.fields[v.names.index("info")]
            if isinstance(info, VAgg) and info.variant in ("Text", "Break"):
                return ["ORIG"]
        for fl in v.fields:
            out += _flatten_nodes(ctx, fl, depth + 1)
        return out
    if isinstance(v, VVec):
        for e in v.elems:
            out += _flatten_nodes(ctx, e, depth + 1)
    return out

# ----------------------------------------------------------------------------
# SPEC: style push / unwind symmetry and ordering (annotations do not leak)
# ----------------------------------------------------------------------------

def _call_names(st, pattern):
    return [re.search(pattern, c[0]).group(1) for c in st.calls if re.search(pattern, c[0])]


def spec_style_unwind(ctx, make_exe):
    """PushedStyleInfo::apply pushes colour, background, white-space, preformat according to the style;
    unwind pops exactly what was pushed, background before colour (reverse nesting)."""
    ap = the(ctx.find(r"::apply$", debug=["render", "style", "result"]), "PushedStyleInfo::apply")
    un = the(ctx.find(r"::unwind$", debug=["self", "renderer"]), "PushedStyleInfo::unwind")
    names = ctx.structs["PushedStyleInfo"]
    total = 0
    # --- unwind: flags symbolic -------------------------------------------------------------
    exe = make_exe()
    st = State()
    flags = {n: exe.fresh("bool", "pushed." + n) for n in names}
    info = VAgg("PushedStyleInfo", None, [flags[n] for n in names], names)
    outs = exe.run(un.name, {1: info, 2: VRef("val", VOpaque("TextRenderer<D>", "renderer"))}, st)
    total += len(outs)
    for (s2, ret) in outs:
        pops = _call_names(s2, r"as Renderer>::(pop_\w+)$")
        want_map = {"colour": "pop_colour", "bgcolour": "pop_bgcolour", "white_space": "pop_ws", "preformat": "pop_preformat"}
        for n in names:
            present = want_map[n] in pops
            post(exe, s2, flags[n].e == z3.BoolVal(present), un.name, "unwind pops %s exactly when it was pushed" % n)
        post(exe, s2, z3.BoolVal(len(pops) == len(set(pops))), un.name, "nothing is popped twice")
        if "pop_colour" in pops and "pop_bgcolour" in pops:
            post(exe, s2, z3.BoolVal(pops.index("pop_bgcolour") < pops.index("pop_colour")), un.name,
                 "the background colour (pushed last) is popped before the colour")
    # --- apply: which pushes happen, in which order, and the returned flags --------------------
    exe2 = make_exe(inline=[r"<PushedStyleInfo as Default>::default$"])
    st = State()
    outs = exe2.run(ap.name, {1: VRef("val", VOpaque("TextRenderer<D>", "renderer")), 2: VRef("val", VOpaque("ComputedStyle", "style"))}, st)
    total += len(outs)
    for (s2, ret) in outs:
        pushes = _call_names(s2, r"as Renderer>::(push_\w+)$")
        if not isinstance(ret, VAgg):
            raise Inconclusive("apply did not return a struct")
        got = {n: ret.fields[names.index(n)] for n in names}
        want_map = {"colour": "push_colour", "bgcolour": "push_bgcolour", "white_space": "push_ws", "preformat": "push_preformat"}
        for n in names:
            fl = got[n]
            if not isinstance(fl, VBool):
                raise Inconclusive("flag %s is not boolean" % n)
            post(exe2, s2, fl.e == z3.BoolVal(want_map[n] in pushes), ap.name,
                 "apply records %s exactly when it pushed it" % n)
        if "push_colour" in pushes and "push_bgcolour" in pushes:
            post(exe2, s2, z3.BoolVal(pushes.index("push_colour") < pushes.index("push_bgcolour")), ap.name,
                 "colour is pushed before (outside) the background colour")
        post(exe2, s2, z3.BoolVal(len(pushes) == len(set(pushes))), ap.name, "nothing is pushed twice")
    return {"functions": [ap.name, un.name], "paths": total}


def spec_cell_unwind_order(ctx, make_exe):
    """A table cell's style is unwound on the cell's own renderer, i.e. before that renderer is popped."""
    f = the(ctx.find(r"^render_table_cell::\{closure#0\}$"), "render_table_cell closure")
    exe = make_exe()
    outs = exe.run(f.name, {}, State())
    for (s2, ret) in outs:
        seq = [c[0] for c in s2.calls]
        iu = [i for i, c in enumerate(seq) if re.search(r"PushedStyleInfo::unwind", c)]
        ip = [i for i, c in enumerate(seq) if re.search(r"TextRenderer::<\w+>::pop$", c)]
        post(exe, s2, z3.BoolVal(len(iu) == 1 and len(ip) == 1), f.name, "the cell's style is unwound once and its renderer popped once")
        if iu and ip:
            post(exe, s2, z3.BoolVal(iu[0] < ip[0]), f.name, "style is unwound before the cell's renderer is popped")
    if not outs:
        raise Inconclusive("no path")
    return {"function": f.name, "paths": len(outs)}


# ----------------------------------------------------------------------------
# SPEC: every public route hands the caller's width and a fresh context to render_with_context
# ----------------------------------------------------------------------------

def spec_routes_width(ctx, make_exe):
    total = 0
    fnames = []
    for meth in ("render_to_string", "render_to_lines", "string_from_read", "lines_from_read"):
        f = the(ctx.find(r"config::<impl at [^>]*>::%s$" % meth, debug=["self", "width"]), "Config::" + meth)
        fnames.append(f.name)
        wl = int(f.debug["width"][1:])
        exe = make_exe()
        st = State()
        width = exe.fresh("usize", "width")
        import summaries
        orig = summaries.summarize

        def summ(exe_, st_, f_, bb_, callee, args, dest_ty):
            if re.search(r" as Try>::branch$", callee.strip()) and isinstance(args[0], VOpaque):
                # follow the success path of `?`
                m = re.match(r"std::result::Result<(.*), [^,]*>$", args[0].ty.strip())
                return [(st_, VAgg("ControlFlow::Continue", "Continue", [exe_.fresh(m.group(1) if m else "?", args[0].name + ".ok", st_)]))]
            return orig(exe_, st_, f_, bb_, callee, args, dest_ty)
        summaries.summarize = summ
        try:
            outs = exe.run(f.name, {wl: width}, st)
        finally:
            summaries.summarize = orig
        total += len(outs)
        seen = 0
        for (s2, ret) in outs:
            calls = [c for c in s2.calls if re.search(r"RenderTree::render_with_context", c[0])]
            post(exe, s2, z3.BoolVal(len(calls) == 1), f.name, "%s renders through render_with_context exactly once" % meth)
            for (_, cargs, _, _) in calls:
                seen += 1
                w = cargs[2]
                if not isinstance(w, VInt):
                    raise Inconclusive("width argument is not an integer")
                post(exe, s2, w.e == width.e, f.name, "%s renders at exactly the caller's width" % meth)
            mk = [c for c in s2.calls if re.search(r"::make_context$", c[0])]
            post(exe, s2, z3.BoolVal(len(mk) == 1), f.name, "%s builds its context with make_context" % meth)
        if not seen:
            raise Inconclusive("render_with_context not reached in %s" % meth)
    return {"functions": fnames, "paths": total}

# ----------------------------------------------------------------------------
# SPEC: block prefixes are measured by display width in the render arms (custom decorators)
# ----------------------------------------------------------------------------

def _prefix_arm(ctx, make_exe, prefix_call, what):
    f = the(ctx.find(r"^do_render_node$", debug=["size_estimate", "renderer", "tree"]), "do_render_node")
    se_local = int(f.debug["size_estimate"][1:])
    entry = None
    for name in f.order:
        if f.blocks[name].cleanup:
            continue
        t = f.blocks[name].term
        if t and t[0] == "call" and re.search(r"as Renderer>::%s$" % prefix_call, t[2].strip()):
            entry = name
            break
    if entry is None:
        raise Inconclusive("no call to %s in do_render_node" % prefix_call)
    exe = make_exe(loop_bound=3)
    st = State()
    size = exe.fresh("usize", "est.size")
    minw = exe.fresh("usize", "est.min_width")
    psize = exe.fresh("usize", "est.prefix_size")
    plen = exe.fresh("usize", "prefix.len")       # String::len: bytes
    pwidth = exe.fresh("usize", "prefix.width")   # UnicodeWidthStr::width: columns
    # what calc_size_estimate guarantees: prefix_size is the prefix's display width and is part of min_width;
    # a string is at least as long in bytes as it is wide in columns / 2 ... only width <= 2*len and len <= 4*chars hold;
    # we only use: both are < 2^32
    st.pc += [psize.e == pwidth.e, z3.UGE(minw.e, psize.e), z3.ULE(plen.e, u64(1 << 32)), z3.ULE(pwidth.e, u64(1 << 32)),
              z3.ULE(minw.e, u64(1 << 40))]
    est = _estimate(ctx, size, minw, psize)
    import summaries
    orig = summaries.summarize

    def summ(exe_, st_, f_, bb_, callee, args, dest_ty):
        c = callee.strip()
        if re.search(r"as Renderer>::%s$" % prefix_call, c):
            return [(st_, VOpaque("String", "the_prefix"))]
        if re.search(r"^String::len$", c):
            return [(st_, plen)]
        if re.search(r"UnicodeWidthStr>::width$", c):
            return [(st_, pwidth)]
        if re.search(r"SubRenderer::<\w+>::width_minus$", c):
            return []  # observed; the slice ends here
        return orig(exe_, st_, f_, bb_, callee, args, dest_ty)
    summaries.summarize = summ
    try:
        # record states at the width_minus call through the call log of ended paths
        ended = []
        real_call = exe.call

        def call_hook(st_, f_, bb_, callee, args, dest_ty):
            if re.search(r"SubRenderer::<\w+>::width_minus$", callee.strip()):
                ended.append((st_.clone(), args))
            return real_call(st_, f_, bb_, callee, args, dest_ty)
        exe.call = call_hook
        exe.run(f.name, {}, st, entry=entry, env_overrides={se_local: est})
    finally:
        summaries.summarize = orig
    if not ended:
        raise Inconclusive("width_minus not reached from the %s call" % prefix_call)
    for (s2, args) in ended:
        a1, a2 = args[1], args[2]
        if not (isinstance(a1, VInt) and isinstance(a2, VInt)):
            raise Inconclusive("width_minus arguments are not integers")
        post(exe, s2, a1.e == pwidth.e, f.name, "%s: the width taken from the parent is the prefix's display width" % what)
        post(exe, s2, a2.e == minw.e - pwidth.e, f.name, "%s: the content keeps its estimated minimum width" % what)
    return {"function": f.name, "entry": entry}


def spec_prefix_width_quote(ctx, make_exe):
    return _prefix_arm(ctx, make_exe, "quote_prefix", "blockquote")


def replay_prefix_width(fd, vals, info):
    return {"harness": "m_prefix_width", "values": [[0]]}

# ----------------------------------------------------------------------------
# SPECS: WrappedBlock (word wrapping) over the TaggedLine / string contracts (wrapmodel.py)
# ----------------------------------------------------------------------------

WRAP_INLINE = [r"WrappedBlock::<\w+>::progress_width$", r"WrappedBlock::<\w+>::flush_line$", r"WrappedBlock::<\w+>::force_flush_line$", r"WrappedBlock::<\w+>::flush_word$",
               r"WhiteSpace::do_wrap$", r"WhiteSpace::preserve_whitespace$", r"<WhiteSpace as PartialEq>::eq$"]


def _wrap_setup(ctx, make_exe, mode, spacetag_some, loop_bound, hard_wrap="contract", inline_extra=()):
    import wrapmodel
    exe = make_exe(inline=WRAP_INLINE + list(inline_extra), loop_bound=loop_bound, timeout_ms=20000)
    m = wrapmodel.WrapModel(ctx, exe)
    m.install(hard_wrap=hard_wrap)
    st = State()
    st.pc += m.invariant(mode == "Normal", spacetag_some)
    modev = exe.fresh("u8", "s.mode")  # recorded in every model so that the replay knows the mode
    st.pc.append(modev.e == {"Normal": 0, "Pre": 1, "PreWrap": 2}[mode])
    exe.cell_n += 1
    cid = "cell%d" % exe.cell_n
    exe.global_cells[cid] = m.block(spacetag_some)
    return exe, m, st, VRef("cell", cid)


def _wrap_post_state(exe, m, s2, ref):
    blk = exe.deref(s2, ref)
    g = lambda n: blk.fields[m.names.index(n)]
    return {"line_len": g("line").fields[1].e, "line_nonempty": g("line").fields[2].e, "count": g("text").fields[0].e,
            "maxlen": g("text").fields[1].e, "wslen": g("wslen").e, "wordlen": g("wordlen").e,
            "word_nonempty": g("word").fields[2].e, "spacetag": g("spacetag"), "pre_wrapped": g("pre_wrapped").e}


def spec_wrap_flush_word(ctx, make_exe):
    import wrapmodel
    f = the(ctx.find(r"::flush_word$", debug=["self", "ws_mode"]), "WrappedBlock::flush_word")
    total = 0
    for mode in ("Normal", "Pre", "PreWrap"):
        for tag_some in (True, False):
            exe, m, st, ref = _wrap_setup(ctx, make_exe, mode, tag_some, loop_bound=12)
            # the pending-whitespace copy loop runs wslen / width times: keep it inside the loop bound
            st.pc += [z3.ULE(m.wslen.e, u64(8))]
            try:
                exe.hints = [z3.ULE(m.width.e, u64(12)), z3.ULE(m.wordlen.e, u64(12)), z3.ULE(m.wslen.e, u64(12))]
                outs = exe.run(f.name, {1: ref, 2: wrapmodel.ws_mode(mode)}, st)
            finally:
                m.uninstall()
            total += len(outs)
            W, L, WS, WL = m.width.e, m.line_len.e, m.wslen.e, m.wordlen.e
            fits = z3.ULE(WS + WL, W - L)
            for (s2, ret) in outs:
                if not (isinstance(ret, VAgg) and ret.variant in ("Ok", "Err")):
                    raise Inconclusive("flush_word did not return a Result")
                p = _wrap_post_state(exe, m, s2, ref)
                tag = "flush_word(%s)" % mode
                if ret.variant == "Err":
                    post(exe, s2, z3.Not(m.allow_overflow.e), f.name, tag + ": TooNarrow only when overflow is not allowed")
                    continue
                post(exe, s2, p["wordlen"] == 0, f.name, tag + ": the word buffer is empty afterwards")
                post(exe, s2, z3.Implies(z3.Not(m.word_nonempty.e), z3.And(p["line_len"] == L, p["count"] == m.text_count.e)),
                     f.name, tag + ": nothing happens without a pending word")
                post(exe, s2, z3.Implies(z3.And(m.word_nonempty.e, fits),
                                         z3.And(p["count"] == m.text_count.e, p["line_len"] == L + WS + WL, p["wslen"] == 0)),
                     f.name, tag + ": a word that fits stays on the current line after its pending space (greedy fill)")
                if mode != "Pre":
                    post(exe, s2, z3.Implies(z3.And(m.word_nonempty.e, z3.Not(fits)),
                                             z3.And(p["wslen"] == 0,
                                                    z3.UGE(p["count"], m.text_count.e + z3.If(m.line_nonempty.e, u64(1), u64(0))))),
                         f.name, tag + ": a word that does not fit closes the current line and drops the space")
                post(exe, s2, z3.Implies(z3.Not(m.allow_overflow.e), z3.And(z3.ULE(p["line_len"], W), z3.ULE(p["maxlen"], W))),
                     f.name, tag + ": no line is wider than the block")
                # continuation marking of preformatted lines (rich output tags the rest of a broken <pre> line):
                # placing a word ends any earlier continuation; only breaking a <pre> line starts one
                broke_pre = z3.And(z3.BoolVal(mode == "Pre"), z3.Not(fits))
                post(exe, s2, z3.Implies(m.word_nonempty.e, p["pre_wrapped"] == broke_pre), f.name,
                     tag + ": what follows is marked as a continuation exactly when a preformatted line had to be broken")
                post(exe, s2, z3.Implies(z3.Not(m.word_nonempty.e), p["pre_wrapped"] == m.pre_wrapped.e), f.name,
                     tag + ": the continuation mark is unchanged without a pending word")
    return {"function": f.name, "paths": total}


def _run_add_text(ctx, make_exe, mode, nchars, alphabet, tag_some, extra_pre=None, loop_bound=24):
    import wrapmodel
    f = the(ctx.find(r"::add_text$", debug=["self", "text", "ws_mode", "main_tag", "wrap_tag"]), "WrappedBlock::add_text")
    exe, m, st, ref = _wrap_setup(ctx, make_exe, mode, tag_some, loop_bound=loop_bound)
    chars = []
    for i in range(nchars):
        c = exe.fresh("u32", "ch%d" % i)
        st.pc.append(wrapmodel.in_alphabet(c.e, alphabet))
        chars.append(c)
    st.pc += [z3.ULE(m.wslen.e, u64(8))]
    if extra_pre:
        st.pc += extra_pre(m)
    exe.hints = [z3.ULE(m.width.e, u64(12)), z3.ULE(m.wordlen.e, u64(12)), z3.ULE(m.line_len.e, u64(12)), z3.ULE(m.text_count.e, u64(3))]
    try:
        outs = exe.run(f.name, {1: ref, 2: VRef("val", VVec(chars)), 3: wrapmodel.ws_mode(mode),
                                4: VRef("val", VOpaque("T", "main_tag")), 5: VRef("val", VOpaque("T", "wrap_tag"))}, st)
    finally:
        m.uninstall()
    return f, exe, m, ref, chars, outs


def spec_wrap_add_text_normal(ctx, make_exe):
    """Normal flow: whitespace collapses to at most one pending column, never at the start of a line;
    the width bound and the representation invariant are preserved by every two-character step."""
    import wrapmodel
    total = 0
    for tag_some in (True, False):
        f, exe, m, ref, chars, outs = _run_add_text(ctx, make_exe, "Normal", 2, ["a", " ", "\n", "\t", "wide", "comb", "nbsp"], tag_some)
        total += len(outs)
        for (s2, ret) in outs:
            if not (isinstance(ret, VAgg) and ret.variant in ("Ok", "Err")):
                raise Inconclusive("add_text did not return a Result")
            if ret.variant == "Err":
                post(exe, s2, z3.Not(m.allow_overflow.e), f.name, "add_text(Normal): TooNarrow only when overflow is not allowed")
                continue
            p = _wrap_post_state(exe, m, s2, ref)
            post(exe, s2, z3.ULE(p["wslen"], u64(1)), f.name, "add_text(Normal): collapsed whitespace is at most one column")
            post(exe, s2, z3.Implies(p["wslen"] != 0, p["line_len"] != 0), f.name,
                 "add_text(Normal): no pending space at the start of a line")
            post(exe, s2, z3.Implies(p["wslen"] != 0, z3.BoolVal(isinstance(p["spacetag"], VAgg) and p["spacetag"].variant == "Some")),
                 f.name, "add_text(Normal): pending space carries a tag")
            post(exe, s2, z3.Implies(z3.Not(m.allow_overflow.e), z3.And(z3.ULE(p["line_len"], m.width.e), z3.ULE(p["maxlen"], m.width.e))),
                 f.name, "add_text(Normal): no line is wider than the block")
            post(exe, s2, z3.Implies(p["wordlen"] != 0, p["word_nonempty"]), f.name, "add_text(Normal): a word with width has content")
            # whitespace only input leaves the word and the lines untouched
            both_ws = z3.And(wrapmodel.char_is_ws(chars[0].e), wrapmodel.char_is_ws(chars[1].e))
            post(exe, s2, z3.Implies(z3.And(both_ws, m.wordlen.e == 0, z3.Not(m.word_nonempty.e)),
                                     z3.And(p["count"] == m.text_count.e, p["line_len"] == m.line_len.e, p["wordlen"] == 0)),
                 f.name, "add_text(Normal): whitespace alone emits nothing")
            # ... and any run of collapsible whitespace has exactly the effect of a single space
            post(exe, s2, z3.Implies(z3.And(both_ws, m.wordlen.e == 0, z3.Not(m.word_nonempty.e)),
                                     p["wslen"] == z3.If(m.line_len.e != 0, u64(1), u64(0))),
                 f.name, "add_text(Normal): a whitespace run of any composition leaves one pending space (none at the start of a line)")
            one_ws = z3.And(wrapmodel.char_is_ws(chars[0].e), z3.Not(wrapmodel.char_is_ws(chars[1].e)),
                            m.wordlen.e == 0, z3.Not(m.word_nonempty.e), z3.Not(wrapmodel.char_is_control(chars[1].e)))
            post(exe, s2, z3.Implies(one_ws, z3.And(p["wordlen"] == wrapmodel.char_width(chars[1].e), p["line_len"] == m.line_len.e,
                                                    p["count"] == m.text_count.e)),
                 f.name, "add_text(Normal): a character after whitespace starts the word buffer; nothing is emitted yet")
    return {"function": f.name, "paths": total}


def _wrap_pre_posts(exe, m, f, ref, chars, outs, mode):
    import wrapmodel
    c = chars[0].e
    for (s2, ret) in outs:
        if not (isinstance(ret, VAgg) and ret.variant in ("Ok", "Err")):
            raise Inconclusive("add_text did not return a Result")
        if ret.variant == "Err":
            post(exe, s2, z3.Not(m.allow_overflow.e), f.name, "add_text(%s): TooNarrow only when overflow is not allowed" % mode)
            continue
        p = _wrap_post_state(exe, m, s2, ref)
        post(exe, s2, z3.Implies(z3.Not(m.allow_overflow.e), z3.And(z3.ULE(p["line_len"], m.width.e), z3.ULE(p["maxlen"], m.width.e))),
             f.name, "add_text(%s): no line is wider than the block" % mode)
        nl = z3.And(c == 0x0a, m.wordlen.e == 0, z3.Not(m.word_nonempty.e))
        post(exe, s2, z3.Implies(nl, z3.And(p["count"] == m.text_count.e + 1, p["line_len"] == 0, p["wslen"] == 0, z3.Not(p["pre_wrapped"]))),
             f.name, "add_text(%s): a newline ends the line and resets pending space" % mode)
        col = m.line_len.e + m.wslen.e          # the column the tab starts from: pending spaces count
        nxt = (z3.UDiv(col, u64(8)) + 1) * 8
        tab_fits = z3.And(c == 0x09, m.wordlen.e == 0, z3.Not(m.word_nonempty.e), z3.ULE(nxt, m.width.e))
        post(exe, s2, z3.Implies(tab_fits, z3.And(p["line_len"] + p["wslen"] == nxt, p["count"] == m.text_count.e)),
             f.name, "add_text(%s): a tab advances to the next 8-column stop, counting pending spaces" % mode)


def spec_wrap_add_text_pre(ctx, make_exe):
    """Preformatted flow, characters other than tab: terminates for every block width (including 0),
    newline forces a line, the width bound is preserved."""
    total = 0
    for mode in ("Pre", "PreWrap"):
        for tag_some in (True, False):
            f, exe, m, ref, chars, outs = _run_add_text(ctx, make_exe, mode, 1, ["a", " ", "\n", "wide"], tag_some, loop_bound=10,
                                                        extra_pre=lambda m: [z3.ULE(m.wslen.e, u64(3))])
            total += len(outs)
            _wrap_pre_posts(exe, m, f, ref, chars, outs, mode)
    return {"function": f.name, "paths": total}


def spec_wrap_add_text_tab(ctx, make_exe):
    """Preformatted flow, tab: the tab-stop loop terminates for every block width 0..=20 and line position,
    and lands on the next 8-column stop when it fits."""
    total = 0
    for mode in ("Pre", "PreWrap"):
        for tag_some in (False, True):      # without / with pending spaces before the tab
            f, exe, m, ref, chars, outs = _run_add_text(
                ctx, make_exe, mode, 1, ["\t"], tag_some, loop_bound=30,
                extra_pre=lambda m: [z3.ULE(m.width.e, u64(20)), m.wordlen.e == 0, z3.Not(m.word_nonempty.e)])
            total += len(outs)
            _wrap_pre_posts(exe, m, f, ref, chars, outs, mode)
    return {"function": f.name, "paths": total}


def replay_wrap(fd, vals, info):
    g = lambda k: int(vals.get("s." + k, 0))
    mode = int(vals.get("s.mode", 0))
    chars = [int(vals.get("ch%d" % i, 0)) for i in range(3) if ("ch%d" % i) in vals]
    v = [[mode], le_bytes(g("width"), 8), le_bytes(g("line_len"), 8), le_bytes(g("wslen"), 8), le_bytes(g("wordlen"), 8),
         [1 if vals.get("s.word_nonempty") else 0], [1 if vals.get("s.allow_overflow") else 0],
         [1 if vals.get("s.pre_wrapped") else 0], [len(chars)]]
    for c in chars:
        v.append(le_bytes(c, 4))
    return {"harness": "m_wrap_step", "values": v}

# ----------------------------------------------------------------------------
# SPEC: DOM element constructors keep every child, in order (text is not lost or reordered)
# ----------------------------------------------------------------------------

def spec_dom_constructors(ctx, make_exe):
    closures = [f for f in ctx.find(r"^process_dom_node::\{closure#\d+\}$")
                if len(f.args) == 3 and "Vec<RenderNode>" in f.args[2][1] and "HtmlContext" in f.args[1][1]]
    if len(closures) < 15:
        raise Inconclusive("expected the element constructor closures of process_dom_node, found %d" % len(closures))
    total = 0
    checked = 0
    for f in closures:
        exe = make_exe(inline=[r"RenderNode::new_styled$", r"RenderNode::new$"], loop_bound=8)
        kids = [VOpaque("RenderNode", "child%d" % k) for k in range(3)]
        empties = {}
        import summaries
        orig = summaries.summarize

        def summ(exe_, st_, f_, bb_, callee, args, dest_ty, empties=empties):
            c = callee.strip()
            if re.search(r"RenderNode::is_shallow_empty$", c):
                node = args[0]
                if isinstance(node, VRef):
                    node = exe_.deref(st_, node)
                key = getattr(node, "name", "?")
                if key not in empties:
                    empties[key] = exe_.fresh("bool", key + ".shallow_empty")
                return [(st_, empties[key])]
            if re.search(r"as FnOnce<.*>>::call_once$", c):
                return None
            return orig(exe_, st_, f_, bb_, callee, args, dest_ty)
        summaries.summarize = summ
        try:
            outs = exe.run(f.name, {3: VVec(kids)}, State())
        finally:
            summaries.summarize = orig
        total += len(outs)
        wraps_inner = any(re.search(r"call_once", h) for h in exe.stats.havoc)
        if wraps_inner:
            continue  # fragment / pseudo-content wrappers call the inner constructor through a boxed FnOnce
        checked += 1
        uses_filter = any("filter" in c0[0] for (s2, _) in outs for c0 in s2.calls)
        for (s2, ret) in outs:
            val = ret
            if isinstance(val, VAgg) and val.variant in ("Ok",):
                val = val.fields[0]
            if isinstance(val, VAgg) and val.variant == "None":
                # dropping everything is only allowed for links whose children are all (shallow) empty
                if empties:
                    allempty = z3.And(*[empties.get("child%d" % k, VBool(z3.BoolVal(False))).e for k in range(3)])
                    post(exe, s2, allempty, f.name, "a link is dropped only when every child is empty")
                else:
                    post(exe, s2, z3.BoolVal(False), f.name, "an element with children is not dropped")
                continue
            seq = [n for n in _flatten_nodes(ctx, val) if n.startswith("child")]
            want = ["child0", "child1", "child2"]
            if uses_filter:
                ok = seq == [w for w in want if w in seq] and len(seq) == len(set(seq))
                post(exe, s2, z3.BoolVal(ok), f.name, "filtered children keep their order and are not duplicated (got %s)" % seq)
            else:
                post(exe, s2, z3.BoolVal(seq == want), f.name, "all children are kept, in order (got %s)" % seq)
            if empties:
                anyfull = z3.Or(*[z3.Not(empties.get("child%d" % k, VBool(z3.BoolVal(True))).e) for k in range(3)])
                post(exe, s2, anyfull, f.name, "a link is kept only when some child is non-empty")
    if checked < 15:
        raise Inconclusive("only %d constructor closures could be checked" % checked)
    return {"closures_checked": checked, "paths": total}

# ----------------------------------------------------------------------------
# SPEC: the :nth-child(...) argument closures never panic, whatever digits they are given
# ----------------------------------------------------------------------------

def spec_nth_parse(ctx, make_exe):
    """The an+b value closures: never panic, and compute a = sign_a * |a| (|a| = 1 when omitted), b = sign_b * |b|."""
    closures = ctx.find(r"parse_nth_child_args::\{closure#\d+\}$")
    closures = [f for f in closures if any(re.search(r"FromStr>::from_str", " ".join(b.raw)) for b in f.blocks.values())]
    if len(closures) < 3:
        raise Inconclusive("expected the three an+b closures of parse_nth_child_args, found %d" % len(closures))
    total = 0
    import summaries
    orig = summaries.summarize
    for f in closures:
        arity = len(re.findall(r",", f.args[1][1])) + 1 if len(f.args) > 1 else 0
        tuple_ty = f.args[1][1]
        has_a = "Option<&str>" in tuple_ty
        both = tuple_ty.count("parser::Sign") == 2 or tuple_ty.count("Sign") == 2
        for a_given in ((True, False) if has_a else (None,)):
            exe = make_exe(inline=[r"Sign::val$"])
            st = State()
            va = exe.fresh("i64", "a_digits")
            vb = exe.fresh("i64", "b_digits")
            st.pc += [va.e >= 0, va.e <= (1 << 40), vb.e >= 0, vb.e <= (1 << 40)]
            sa = VOpaque("css::parser::Sign", "a_sign")
            sb = VOpaque("css::parser::Sign", "b_sign")
            dsa = VAgg("DigitStr", None, [va])
            dsb = VAgg("DigitStr", None, [vb])
            # the signs are inputs whether or not the closure looks at them
            da_, db_ = exe.discriminant(sa).e, exe.discriminant(sb).e
            if has_a and both:
                arg = VAgg("tuple", None, [sa, VAgg("Option::Some", "Some", [dsa]) if a_given else VAgg("Option::None", "None", []),
                                           VOpaque("&str", "n"), VUnit(), sb, dsb])
            elif has_a:
                arg = VAgg("tuple", None, [sa, VAgg("Option::Some", "Some", [dsa]) if a_given else VAgg("Option::None", "None", []), VOpaque("&str", "n")])
            else:
                arg = VAgg("tuple", None, [sb, dsb])

            def summ(exe_, st_, f_, bb_, callee, args, dest_ty):
                c = callee.strip()
                if re.search(r"<i32 as FromStr>::from_str$", c):
                    x = args[0]
                    if isinstance(x, VOpaque) and '"1"' in x.name:
                        return [(st_, VAgg("Result::Ok", "Ok", [VInt(z3.BitVecVal(1, 32), 32, True)]))]
                    if isinstance(x, VAgg) and x.path == "DigitStr":
                        v = x.fields[0]
                        fits = v.e <= ((1 << 31) - 1)
                        outs = []
                        if exe_.feasible(st_, fits):
                            ok = st_.clone()
                            ok.pc.append(fits)
                            outs.append((ok, VAgg("Result::Ok", "Ok", [VInt(z3.Extract(31, 0, v.e), 32, True)])))
                        if exe_.feasible(st_, z3.Not(fits)):
                            er = st_.clone()
                            er.pc.append(z3.Not(fits))
                            outs.append((er, VAgg("Result::Err", "Err", [VOpaque("ParseIntError", "too_many_digits")])))
                        return outs
                    return None
                if re.search(r"Result::<.*>::unwrap$", c):
                    v = args[0]
                    if isinstance(v, VAgg) and v.variant == "Ok":
                        return [(st_, v.fields[0])]
                    if isinstance(v, VAgg) and v.variant == "Err":
                        exe_.oblige(st_, z3.BoolVal(False), "panic", f_.name, bb_, "unwrap on a failed integer parse (too many digits)", tag="unwrap")
                        return []
                return orig(exe_, st_, f_, bb_, callee, args, dest_ty)
            summaries.summarize = summ
            try:
                outs = exe.run(f.name, {2: arg}, st)
            finally:
                summaries.summarize = orig
            total += len(outs)
            for (s2, ret) in outs:
                val = ret
                if isinstance(val, VAgg) and val.variant == "Err":
                    continue
                if isinstance(val, VAgg) and val.variant == "Ok":
                    val = val.fields[0]
                if not (isinstance(val, VAgg) and val.path == "tuple" and len(val.fields) == 2):
                    post(exe, s2, z3.BoolVal(False), f.name, "the closure returns a coefficient pair (or an error value)")
                    continue
                a, b = val.fields
                sgn = lambda name: z3.If((da_ if name == "a_sign" else db_) == 0, z3.BitVecVal(1, 32), z3.BitVecVal(-1, 32))
                a32 = z3.Extract(31, 0, va.e) if a_given else z3.BitVecVal(1, 32)
                b32 = z3.Extract(31, 0, vb.e)
                if has_a and both:
                    post(exe, s2, z3.And(a.e == sgn("a_sign") * a32, b.e == sgn("b_sign") * b32), f.name,
                         "an+b: a = sign * digits (1 when omitted), b = sign * digits")
                elif has_a:
                    post(exe, s2, z3.And(a.e == sgn("a_sign") * a32, b.e == 0), f.name, "an: a = sign * digits (1 when omitted), b = 0")
                else:
                    post(exe, s2, z3.And(a.e == 0, b.e == sgn("b_sign") * b32), f.name, "b only: a = 0, b = sign * digits")
    return {"closures": [f.name for f in closures], "paths": total}


# ----------------------------------------------------------------------------
# SPEC: size estimates of container nodes: sizes add, minimum widths take the maximum,
#       prefixed blocks add their prefix, links reserve 5 columns
# ----------------------------------------------------------------------------

def spec_size_estimate_arms(ctx, make_exe):
    f = the(ctx.find(r"::calc_size_estimate$", debug=["self", "context", "decorator", "estimate"]), "RenderNode::calc_size_estimate")
    kinds = ["Container", "Em", "Block", "Div", "ListItem", "Link", "BlockQuote", "Ul", "Dd", "Header", "Ol", "Break", "FragStart"]
    total = 0
    import summaries
    orig = summaries.summarize
    for kind in kinds:
        exe = make_exe(inline=[r"SizeEstimate::add$", r"SizeEstimate::add_hor$", r"<SizeEstimate as Default>::default$"], loop_bound=8)
        st = State()
        ests = []
        for k in range(2):
            sz = exe.fresh("usize", "child%d.size" % k)
            mn = exe.fresh("usize", "child%d.min" % k)
            st.pc += [z3.ULE(sz.e, u64(1 << 30)), z3.ULE(mn.e, u64(1 << 30))]
            ests.append((sz, mn))
        pw = exe.fresh("usize", "prefix.width")
        st.pc.append(z3.ULE(pw.e, u64(1 << 20)))
        kids = VVec([VOpaque("RenderNode", "child0"), VOpaque("RenderNode", "child1")])
        if kind in ("Container", "Em", "Block", "Div", "ListItem", "BlockQuote", "Ul", "Dd"):
            info = VAgg("RenderNodeInfo::" + kind, kind, [kids])
        elif kind == "Link":
            info = VAgg("RenderNodeInfo::Link", kind, [VOpaque("String", "href"), kids])
        elif kind == "Header":
            info = VAgg("RenderNodeInfo::Header", kind, [VInt(u64(2), 64, False), kids])
        elif kind == "Ol":
            info = VAgg("RenderNodeInfo::Ol", kind, [exe.fresh("i64", "ol.start"), kids])
        elif kind == "Break":
            info = VAgg("RenderNodeInfo::Break", kind, [])
        else:
            info = VAgg("RenderNodeInfo::FragStart", kind, [VOpaque("String", "frag")])
        node = _agg(ctx, "RenderNode", info=info, size_estimate=VAgg("Cell", None, [VAgg("Option::None", "None", [])]))

        def summ(exe_, st_, f_, bb_, callee, args, dest_ty, ests=ests, pw=pw):
            c = callee.strip()
            if re.search(r"RenderNode::calc_size_estimate::<", c) or re.search(r"^RenderNode::calc_size_estimate$", c):
                child = args[0]
                if isinstance(child, VRef):
                    child = exe_.deref(st_, child)
                k = int(child.name[-1])
                return [(st_, _estimate(ctx, ests[k][0], ests[k][1], exe_.fresh("usize", exe_.fresh_name("child.prefix"))))]
            # where the measured prefix comes from: a literal, or the decorator's string for this kind of block
            m_ = re.search(r"TextDecorator>::(quote_prefix|unordered_item_prefix|header_prefix)$", c)
            if m_:
                return [(st_, VOpaque("String", "dec:" + m_.group(1)))]
            if re.search(r"^<&str as (?:std::convert::)?Into<String>>::into$", c) or re.search(r"<String as From<&str>>::from$", c):
                src = args[0]
                while isinstance(src, VRef):
                    src = exe_.deref(st_, src)
                return [(st_, VOpaque("String", "lit:" + getattr(src, "name", "?")))]
            if re.search(r"^String::as_str$", c) or re.search(r"^<String as Deref>::deref$", c):
                src = args[0]
                while isinstance(src, VRef):
                    src = exe_.deref(st_, src)
                return [(st_, VRef("val", VOpaque("str", getattr(src, "name", "?"))))]
            if re.search(r"UnicodeWidthStr>::width$", c):
                src = args[0]
                while isinstance(src, VRef):
                    src = exe_.deref(st_, src)
                st_.calls.append(("measured", [getattr(src, "name", "?")], f_.name, bb_))
                return [(st_, pw)]
            if re.search(r"^calc_ol_prefix_size::<", c):
                return [(st_, pw)]
            if re.search(r"Cell::<.*>::set$", c):
                return [(st_, VUnit())]
            return orig(exe_, st_, f_, bb_, callee, args, dest_ty)
        summaries.summarize = summ
        try:
            outs = exe.run(f.name, {1: VRef("val", node)}, st)
        finally:
            summaries.summarize = orig
        total += len(outs)
        ssum = ests[0][0].e + ests[1][0].e
        mmax = z3.If(z3.UGT(ests[0][1].e, ests[1][1].e), ests[0][1].e, ests[1][1].e)
        i_size, i_min, i_pre = ctx.field("SizeEstimate", "size"), ctx.field("SizeEstimate", "min_width"), ctx.field("SizeEstimate", "prefix_size")
        for (s2, ret) in outs:
            if not (isinstance(ret, VAgg) and len(ret.fields) == 3):
                raise Inconclusive("calc_size_estimate(%s) did not return an estimate" % kind)
            size, minw, pre = ret.fields[i_size].e, ret.fields[i_min].e, ret.fields[i_pre].e
            if kind in ("Container", "Em", "Block", "Div", "ListItem"):
                post(exe, s2, z3.And(size == ssum, minw == mmax), f.name, "%s: sizes add, the widest child minimum wins" % kind)
            elif kind == "Link":
                post(exe, s2, size == ssum + 5, f.name, "Link: reserves 5 columns of size")
                post(exe, s2, minw == z3.If(z3.UGT(mmax, u64(5)), mmax, u64(5)), f.name,
                     "Link: minimum width is max(children, 5), not the sum")
            elif kind in ("BlockQuote", "Ul", "Header", "Ol", "Dd"):
                post(exe, s2, z3.And(size == ssum + pw.e, minw == mmax + pw.e, pre == pw.e), f.name,
                     "%s: prefix width is added to size and minimum width and recorded as prefix_size" % kind)
                # the prefix that is measured is the one the rendering arm of this kind subtracts again: two spaces for a
                # definition (do_render_node computes min_width - 2 there), the decorator's quote / bullet string otherwise
                want_src = {"Dd": 'lit:const:"  "', "BlockQuote": "dec:quote_prefix", "Ul": "dec:unordered_item_prefix"}.get(kind)
                if want_src:
                    measured = [cl[1][0] for cl in s2.calls if cl[0] == "measured"]
                    post(exe, s2, z3.BoolVal(measured == [want_src]), f.name,
                         "%s: the prefix measured for the estimate is the one the block is rendered with (measured %s)" % (kind, measured))
            elif kind == "Break":
                post(exe, s2, z3.And(size == 1, minw == 1), f.name, "Break: one column")
            else:
                post(exe, s2, z3.And(size == 0, minw == 0), f.name, "FragStart: no size")
    return {"function": f.name, "paths": total}

# ----------------------------------------------------------------------------
# SPEC: flush_wrapping keeps fragment markers that are still waiting for a text line
# ----------------------------------------------------------------------------

def spec_flush_wrapping_frags(ctx, make_exe):
    f = the(ctx.find(r"::flush_wrapping$", debug=["self"]), "SubRenderer::flush_wrapping")
    total = 0
    import summaries
    orig = summaries.summarize
    for nlines in (0, 1):
        exe = make_exe(inline=[r"SubRenderer::<\w+>::extend_lines::<", r"SubRenderer::<\w+>::add_line$"], loop_bound=6)
        old = VOpaque("TaggedLineElement", "frag_old")
        new = VOpaque("TaggedLineElement", "frag_new")
        sub = _agg(ctx, "SubRenderer", wrapping=VAgg("Option::Some", "Some", [VOpaque("WrappedBlock", "block")]),
                   pending_frags=VVec([old]), lines=VOpaque("LinkedList", "lines"))
        exe.cell_n += 1
        cid = "cell%d" % exe.cell_n
        exe.global_cells[cid] = sub
        lines = [VOpaque("TaggedLine", "line%d" % k) for k in range(nlines)]
        log = []

        def summ(exe_, st_, f_, bb_, callee, args, dest_ty, lines=lines, new=new, log=log):
            c = callee.strip()
            if re.search(r"::take_trailing_fragments$", c):
                return [(st_, VVec([new]))]
            if re.search(r"WrappedBlock::<.*>::into_lines$", c):
                return [(st_, VAgg("Result::Ok", "Ok", [VVec(lines)]))]
            if re.search(r"Option::<.*>::take$", c):
                cur = exe_.deref(st_, args[0])
                exe_.write_ref(st_, args[0], [], VAgg("Option::None", "None", []), None)
                return [(st_, cur)]
            if re.search(r"TaggedLine::<.*>::new$", c):
                return [(st_, VVec([]))]   # the line being assembled: a list of elements
            if re.search(r"TaggedLine::<.*>::push$", c):
                cur = exe_.deref(st_, args[0])
                exe_.write_ref(st_, args[0], [], VVec(list(cur.elems) + [args[1]]), None)
                return [(st_, VUnit())]
            if re.search(r"^<TaggedLine<.*> as IntoIterator>::into_iter$", c):
                return [(st_, VIter("vec", VVec([VOpaque("TaggedLineElement", getattr(args[0], "name", "line") + ".content")]), 0))]
            if re.search(r"LinkedList::<.*>::push_back$", c):
                log.append(args[1])
                return [(st_, VUnit())]
            return orig(exe_, st_, f_, bb_, callee, args, dest_ty)
        summaries.summarize = summ
        try:
            outs = exe.run(f.name, {1: VRef("cell", cid)}, State())
        finally:
            summaries.summarize = orig
        total += len(outs)
        names = ctx.structs["SubRenderer"]
        for (s2, ret) in outs:
            blk = exe.deref(s2, VRef("cell", cid))
            pend = blk.fields[names.index("pending_frags")]
            got = [getattr(e, "name", "?") for e in pend.elems] if isinstance(pend, VVec) else None
            emitted = []
            for v in log:
                emitted += [n for n in _names_in(v)]
            if nlines == 0:
                post(exe, s2, z3.BoolVal(got == ["frag_old", "frag_new"]), f.name,
                     "no text line flushed: markers already waiting stay queued, new ones are appended (got %s)" % got)
            else:
                post(exe, s2, z3.BoolVal(got == ["frag_new"]), f.name, "a text line was flushed: only the new trailing markers wait (got %s)" % got)
                post(exe, s2, z3.BoolVal("frag_old" in emitted), f.name, "the waiting marker is attached to the flushed line (emitted %s)" % emitted)
    return {"function": f.name, "paths": total}


def _names_in(v, depth=0):
    out = []
    if depth > 8:
        return out
    if isinstance(v, VOpaque):
        out.append(v.name)
    elif isinstance(v, VAgg):
        for x in v.fields:
            out += _names_in(x, depth + 1)
    elif isinstance(v, VVec):
        for x in v.elems:
            out += _names_in(x, depth + 1)
    return out

# ----------------------------------------------------------------------------
# SPEC: list items: continuation lines are indented by the bullet's display width (custom decorators)
# ----------------------------------------------------------------------------

def spec_prefix_width_ul(ctx, make_exe):
    cands = [f for f in ctx.find(r"^do_render_node::\{closure#\d+\}$") if "indent" in f.debug]
    f = the(cands, "the Ul item closure of do_render_node (the one that builds `indent`)")
    exe = make_exe()
    st = State()
    pwidth = exe.fresh("usize", "prefix.width")
    plen = exe.fresh("usize", "prefix.len")
    st.pc += [z3.ULE(pwidth.e, u64(1 << 20)), z3.ULE(plen.e, u64(1 << 20))]
    # captured environment, by the debug lines `debug NAME => ((*_1).K: T)`
    caps = {}
    for name, place in f.debug.items():
        m = re.match(r"\(\(\*_1\)\.(\d+): (.*)\)$", place)
        if m:
            caps[int(m.group(1))] = (name, m.group(2))
    fields = []
    for k in range(max(caps) + 1 if caps else 0):
        name, ty = caps.get(k, ("?", "?"))
        if name == "prefix_len":
            fields.append(pwidth)  # do_render_node computes it as the prefix's display width (checked by prefix_width_ul_len)
        else:
            fields.append(VOpaque(ty, "cap." + name))
    env = VAgg("closure", None, fields)
    import summaries
    orig = summaries.summarize
    seen = []

    def summ(exe_, st_, f_, bb_, callee, args, dest_ty):
        c = callee.strip()
        if re.search(r"^String::len$", c):
            return [(st_, plen)]
        if re.search(r"UnicodeWidthStr>::width$", c):
            return [(st_, pwidth)]
        if re.search(r"std::str::<impl str>::repeat$", c):
            seen.append((st_.clone(), args[1]))
            return [(st_, VOpaque("String", "indent"))]
        return orig(exe_, st_, f_, bb_, callee, args, dest_ty)
    summaries.summarize = summ
    try:
        exe.run(f.name, {1: VRef("val", env)}, st)
    finally:
        summaries.summarize = orig
    if not seen:
        raise Inconclusive("the closure does not build its indentation with str::repeat")
    for (s2, n) in seen:
        if not isinstance(n, VInt):
            raise Inconclusive("repeat count is not an integer")
        post(exe, s2, n.e == pwidth.e, f.name, "list item: continuation lines are indented by the bullet's display width")
    # the parent computes prefix_len from the display width
    parent = the(ctx.find(r"^do_render_node$", debug=["prefix_len"]), "do_render_node")
    pl = int(parent.debug["prefix_len"][1:])
    src = None
    for name in parent.order:
        blk = parent.blocks[name]
        t = blk.term
        if t and t[0] == "call" and t[1] is not None and t[1].local == pl and not t[1].proj:
            src = t[2]
    post(exe, State(), z3.BoolVal(bool(src) and "UnicodeWidthStr" in src), parent.name,
         "list: prefix_len is the prefix's display width (computed by %s)" % (src or "?")[:60])
    return {"function": f.name}


# ----------------------------------------------------------------------------
# SPEC: strikeout: the closing affix is emitted after the strike filter is removed
# ----------------------------------------------------------------------------

def spec_strikeout_affix(ctx, make_exe):
    f = the(ctx.find(r"::end_strikeout$", debug=["self"]), "SubRenderer::end_strikeout")
    g = the(ctx.find(r"::start_strikeout$", debug=["self"]), "SubRenderer::start_strikeout")
    total = 0
    for fn, first, second, what in ((f, r"Vec::<for<'a> fn\(&'a str\).*>::pop$", r"as Renderer>::add_inline_text$",
                                     "end_strikeout: the text filter is removed before the closing affix is emitted"),
                                    (g, r"as Renderer>::add_inline_text$", r"Vec::<for<'a> fn\(&'a str\).*>::push$",
                                     "start_strikeout: the opening affix is emitted before the text filter is installed")):
        exe = make_exe()
        uni = exe.fresh("bool", "use_unicode_strikeout")
        opts = _agg(ctx, "RenderOptions", use_unicode_strikeout=uni)
        sub = _agg(ctx, "SubRenderer", options=opts)
        exe.cell_n += 1
        cid = "cell%d" % exe.cell_n
        exe.global_cells[cid] = sub
        outs = exe.run(fn.name, {1: VRef("cell", cid)}, State())
        total += len(outs)
        for (s2, ret) in outs:
            seq = [c[0] for c in s2.calls]
            i1 = [i for i, c in enumerate(seq) if re.search(first, c)]
            i2 = [i for i, c in enumerate(seq) if re.search(second, c)]
            filt = i1 if "pop" in first else i2
            if isinstance(ret, VAgg) and ret.variant == "Ok":
                post(exe, s2, uni.e == z3.BoolVal(bool(filt)), fn.name, "the strike filter is touched exactly when unicode strikeout is enabled")
            if i1 and i2:
                post(exe, s2, z3.BoolVal(i1[0] < i2[0]), fn.name, what)
    return {"functions": [f.name, g.name], "paths": total}

# ----------------------------------------------------------------------------
# SPEC: the CSS tokenizer always makes progress (every Ok result consumes at least one byte)
# ----------------------------------------------------------------------------

def spec_css_token_progress(ctx, make_exe):
    f = the(ctx.find(r"^parse_token$", debug=["text", "rest", "chars"]), "css::parser::parse_token")
    exe = make_exe(inline=[r"parser::is_digit$", r"^is_digit$", r"is_ident_start$"], loop_bound=6)
    st = State()
    off0 = exe.fresh("usize", "rest.offset")     # position of `rest` (after optional whitespace) in the stylesheet
    n0 = exe.fresh("usize", "rest.len")
    ch = exe.fresh("u32", "first_char")
    st.pc += [z3.ULE(off0.e, u64(1 << 30)), z3.ULE(n0.e, u64(1 << 30)), z3.ULE(ch.e, z3.BitVecVal(0x10ffff, 32))]
    exe.hints = [ch.e >= 0x21, ch.e <= 0x7e]
    # a non-empty slice holds its whole first character
    l8 = z3.If(z3.ULT(ch.e, 0x80), u64(1), z3.If(z3.ULT(ch.e, 0x800), u64(2), z3.If(z3.ULT(ch.e, 0x10000), u64(3), u64(4))))
    st.pc.append(z3.Or(n0.e == 0, z3.UGE(n0.e, l8)))

    def slc(off, n):
        return VAgg("StrSlice", None, [off, n])
    rest0 = slc(off0, n0)
    import summaries
    orig = summaries.summarize
    subparsers = r"^(parse_numeric_token|parse_ident_like|parse_string_token|parse_identstring|parse_ident)$"

    def as_slice(v, exe_, st_):
        if isinstance(v, VRef):
            v = exe_.deref(st_, v)
        return v if isinstance(v, VAgg) and v.path == "StrSlice" else None

    def summ(exe_, st_, f_, bb_, callee, args, dest_ty):
        c = callee.strip()
        if re.search(r"^skip_optional_whitespace$", c):
            return [(st_, VAgg("Result::Ok", "Ok", [VAgg("tuple", None, [VRef("val", rest0), VUnit()])]))]
        if re.search(r"core::str::<impl str>::chars$", c):
            return [(st_, VIter("vec", VVec([ch]), 0))]   # only the first character is inspected
        if re.search(r"^<Chars<'_> as Iterator>::next$", c):
            it = exe_.deref(st_, args[0])
            outs = []
            if it.pos == 0:
                some = st_.clone()
                some.pc.append(n0.e != 0)
                exe_.write_ref(some, args[0], [], VIter("vec", it.src, 1), None)
                outs.append((some, VAgg("Option::Some", "Some", [ch])))
                none = st_.clone()
                none.pc.append(n0.e == 0)
                outs.append((none, VAgg("Option::None", "None", [])))
                return outs
            return [(st_, VAgg("Option::None", "None", []))]
        if re.search(r"^<str as Index<std::ops::RangeFrom<usize>>>::index$", c):
            sl = as_slice(args[0], exe_, st_)
            start = args[1].fields[0] if isinstance(args[1], VAgg) else None
            if sl is not None and isinstance(start, VInt):
                off, n = sl.fields
                exe_.oblige(st_, z3.ULE(start.e, n.e), "panic", f_.name, bb_, "byte index out of range of the string slice", tag="bounds")
                return [(st_, VRef("val", slc(VInt(off.e + start.e, 64, False), VInt(n.e - start.e, 64, False))))]
            return None
        if re.search(r"char::methods::<impl char>::len_utf8$", c):
            cc = args[0].e
            return [(st_, VInt(z3.If(z3.ULT(cc, 0x80), u64(1), z3.If(z3.ULT(cc, 0x800), u64(2), z3.If(z3.ULT(cc, 0x10000), u64(3), u64(4)))), 64, False))]
        if re.search(subparsers, c) or re.search(r"strip_prefix::<", c):
            # a sub-parser either fails or returns a strictly shorter remainder (its own progress is its own obligation)
            sl = as_slice(args[0], exe_, st_)
            if sl is None:
                return None
            off, n = sl.fields
            k = exe_.fresh("usize", exe_.fresh_name("consumed"))
            ok = st_.clone()
            ok.pc += [z3.UGE(k.e, u64(1)), z3.ULE(k.e, n.e)]
            rem = VRef("val", slc(VInt(off.e + k.e, 64, False), VInt(n.e - k.e, 64, False)))
            outs = []
            if "strip_prefix" in c:
                outs.append((ok, VAgg("Option::Some", "Some", [rem])))
                outs.append((st_.clone(), VAgg("Option::None", "None", [])))
            else:
                outs.append((ok, VAgg("Result::Ok", "Ok", [VAgg("tuple", None, [rem, VOpaque("Token", exe_.fresh_name("tok"))])])))
                outs.append((st_.clone(), VAgg("Result::Err", "Err", [VOpaque("nom::Err", "suberr")])))
            return outs
        if re.search(r"char::methods::<impl char>::is_ascii_digit$", c):
            cc = args[0]
            if isinstance(cc, VRef):
                cc = exe_.deref(st_, cc)
            return [(st_, VBool(z3.And(z3.UGE(cc.e, 0x30), z3.ULE(cc.e, 0x39))))]
        if re.search(r"^fail::<", c):
            return [(st_, VAgg("Result::Err", "Err", [VOpaque("nom::Err", "fail")]))]
        if re.search(r" as std::convert::Into<", c):
            return [(st_, VOpaque("Cow", exe_.fresh_name("cow")))]
        return orig(exe_, st_, f_, bb_, callee, args, dest_ty)
    summaries.summarize = summ
    try:
        outs = exe.run(f.name, {1: VRef("val", slc(exe.fresh("usize", "text.offset"), exe.fresh("usize", "text.len")))}, st)
    finally:
        summaries.summarize = orig
    n_ok = 0
    for (s2, ret) in outs:
        if not (isinstance(ret, VAgg) and ret.variant in ("Ok", "Err")):
            raise Inconclusive("parse_token did not return a Result (%r)" % (ret,))
        if ret.variant == "Err":
            continue
        n_ok += 1
        tup = ret.fields[0]
        rem = as_slice(tup.fields[0], exe, s2)
        if rem is None:
            raise Inconclusive("parse_token's remainder is not a slice of its input")
        post(exe, s2, z3.UGT(rem.fields[0].e, off0.e), f.name, "a successfully parsed token consumes at least one byte (the tokenizer makes progress)")
    if n_ok < 10:
        raise Inconclusive("only %d successful paths through parse_token" % n_ok)
    return {"function": f.name, "paths": len(outs), "ok_paths": n_ok}

# ----------------------------------------------------------------------------
# SPEC: child / descendant combinators continue the match on the parent (never on the element itself)
# ----------------------------------------------------------------------------

def spec_selector_combinators(ctx, make_exe):
    f = the(ctx.find(r"do_matches$", debug=["comps", "node", "parent"]), "Selector::do_matches")
    total = 0
    import summaries
    orig = summaries.summarize
    for comb in ("CombChild", "CombDescendant"):
        exe = make_exe(loop_bound=4)
        comps = VVec([VAgg("SelectorComponent::" + comb, comb, []), VOpaque("SelectorComponent", "next_component")])
        node = VRef("val", VOpaque("Rc<Node>", "the_node"))
        rec = []
        has_parent = exe.fresh("bool", "has_parent")
        r_rest = exe.fresh("bool", "rest_matches_parent")
        r_same = exe.fresh("bool", "same_matches_parent")

        def summ(exe_, st_, f_, bb_, callee, args, dest_ty, comb=comb):
            c = callee.strip()
            if re.search(r"^Node::get_parent$", c) or re.search(r"::get_parent$", c):
                some = st_.clone()
                some.pc.append(has_parent.e)
                none = st_.clone()
                none.pc.append(z3.Not(has_parent.e))
                return [(some, VAgg("Option::Some", "Some", [VOpaque("Rc<Node>", "the_parent")])),
                        (none, VAgg("Option::None", "None", []))]
            if re.search(r"core::slice::<impl \[.*\]>::first$", c):
                return [(st_, VAgg("Option::Some", "Some", [VRef("val", comps.elems[0])]))]
            if re.search(r"^<\[SelectorComponent\] as Index<std::ops::RangeFrom<usize>>>::index$", c):
                return [(st_, VRef("val", VOpaque("[SelectorComponent]", "comps_tail")))]
            if re.search(r"Selector::do_matches$", c):
                on = args[1]
                tgt = exe_.deref(st_, on) if isinstance(on, VRef) else on
                which = getattr(args[0], "name", None)
                if isinstance(args[0], VRef):
                    inner = exe_.deref(st_, args[0])
                    which = getattr(inner, "name", "comps") if not isinstance(inner, VVec) else "comps"
                rec.append((which, getattr(tgt, "name", "?")))
                return [(st_, r_rest if which == "comps_tail" else r_same)]
            if re.search(r"as Deref>::deref$", c):
                return [(st_, args[0])]
            return orig(exe_, st_, f_, bb_, callee, args, dest_ty)
        summaries.summarize = summ
        try:
            outs = exe.run(f.name, {1: VRef("val", comps), 2: node}, State())
        finally:
            summaries.summarize = orig
        total += len(outs)
        post(exe, State(), z3.BoolVal(all(t == "the_parent" for (_, t) in rec) and len(rec) >= 1), f.name,
             "%s: the rest of the selector is matched against the parent element, never the element itself (%s)" % (comb, rec))
        for (s2, ret) in outs:
            if not isinstance(ret, VBool):
                raise Inconclusive("do_matches did not return a boolean")
            if comb == "CombChild":
                want = z3.And(has_parent.e, r_rest.e)
            else:
                want = z3.And(has_parent.e, z3.Or(r_rest.e, r_same.e))
            post(exe, s2, ret.e == want, f.name, "%s: matches iff the parent matches the rest%s" % (
                comb, "" if comb == "CombChild" else " or the same selector holds one level up"))
    return {"function": f.name, "paths": total}

# ----------------------------------------------------------------------------
# SPEC: which declarations hide an element (styles_from_properties)
# ----------------------------------------------------------------------------

def spec_display_none_decls(ctx, make_exe):
    f = the(ctx.find(r"styles_from_properties$", debug=["decls", "styles", "overflow_hidden", "height_zero"]), "css::styles_from_properties")
    decl_variants = ctx.enums.get("Decl")
    if not decl_variants:
        raise Inconclusive("enum Decl not found")
    idx0 = {name: i for i, name in enumerate(decl_variants)}
    i_data0 = ctx.field("Declaration", "data")
    from sym import VSlice
    all_outs = []
    for n in (1, 2, 3):
        exe = make_exe(loop_bound=8, timeout_ms=10000)
        decls = VVec([VOpaque("parser::Declaration", "decl%d" % k) for k in range(n)])
        st = State()
        if n == 2:
            # two declarations: the kinds that interact (the zero-height + hidden-overflow idiom, display)
            for k in range(n):
                d = z3.BitVec("decl%d.%d.discr" % (k, i_data0), 64)
                st.pc.append(z3.Or(*[d == idx0[v] for v in ("Height", "MaxHeight", "Overflow", "OverflowY", "Display")]))
        if n == 3:
            # three declarations: the parts of the idiom only (a later non-zero height must not undo an earlier zero one)
            for k in range(n):
                d = z3.BitVec("decl%d.%d.discr" % (k, i_data0), 64)
                st.pc.append(z3.Or(*[d == idx0[v] for v in ("Height", "MaxHeight", "Overflow", "OverflowY")]))
        outs_n = exe.run(f.name, {1: VRef("val", VSlice(decls, VInt(u64(0), 64, False), VInt(u64(n), 64, False)))}, st)
        all_outs.append((exe, n, outs_n))
    exe, n, outs = all_outs[0]
    if not outs:
        raise Inconclusive("no path returned")
    idx = {name: i for i, name in enumerate(decl_variants)}
    i_data = ctx.field("Declaration", "data")

    def dv(k):  # discriminant of decl k's data, if it was inspected
        return exe.inputs.get("decl%d.%d.discr" % (k, i_data))

    def inner(k):
        return exe.inputs.get("decl%d.%d.0.discr" % (k, i_data))
    overflow_hidden_idx = ctx.enums["Overflow"].index("Hidden")
    disp_none_idx = [e for e in ("Display",) if e in ctx.enums]
    pdisp = None
    # parser::Display and css::Display share the name; the parser one has `Other`
    for root, _, files in os.walk(os.path.join(ctx.src, "src", "css")):
        pass
    total_checked = 0
    for (exe, n, outs) in all_outs:
      for (s2, ret) in outs:
          if not isinstance(ret, VVec):
              raise Inconclusive("styles_from_properties did not return a vector")
          got_none = 0
          got_other = 0
          last_is_idiom = False
          for el in ret.elems:
              style = el.fields[ctx.field("StyleDecl", "style")] if isinstance(el, VAgg) else None
              if isinstance(style, VAgg) and style.variant == "Display":
                  inner_v = style.fields[0]
                  if (isinstance(inner_v, VAgg) and inner_v.variant == "None") or \
                          (isinstance(inner_v, VOpaque) and inner_v.name.endswith("Display::None")):
                      got_none += 1
                      continue
              got_other += 1
          want_terms = []
          hz_terms = []
          oh_terms = []
          for k in range(n):
              d = dv(k)
              if d is None:
                  continue
              base = "decl%d.%d" % (k, i_data)

              def var(suffix):
                  return exe.inputs.get(base + suffix)
              dd = var("#Display.0.discr")
              if dd is not None:
                  want_terms.append(z3.If(z3.And(d == idx["Display"], dd == 0), 1, 0))
              for kind in ("Height", "MaxHeight"):
                  hv = var("#%s.0.discr" % kind)
                  zero = next((exe.inputs[key] for key in exe.inputs if key.startswith("(%s#%s.0#Length.0 ==" % (base, kind))), None)
                  if hv is not None and zero is not None:
                      hz_terms.append(z3.And(d == idx[kind], hv == ctx.enums["Height"].index("Length"), zero))
              for kind in ("Overflow", "OverflowY"):
                  ov = var("#%s.0.discr" % kind)
                  if ov is not None:
                      oh_terms.append(z3.And(d == idx[kind], ov == overflow_hidden_idx))
          idiom = z3.And(z3.Or(*hz_terms) if hz_terms else z3.BoolVal(False), z3.Or(*oh_terms) if oh_terms else z3.BoolVal(False))
          want = z3.Sum(*(want_terms + [z3.If(idiom, 1, 0)])) if want_terms else z3.If(idiom, 1, 0)
          post(exe, s2, want == got_none, f.name,
               "display:none is produced exactly by display:none declarations and by the zero-height + hidden-overflow idiom (got %d)" % got_none)
          total_checked += 1
    return {"function": f.name, "paths": sum(len(o) for (_, _, o) in all_outs), "checked": total_checked}

# ----------------------------------------------------------------------------
# SPEC: link footnote numbering: start_link records the target, end_link prints the number of links so far
# ----------------------------------------------------------------------------

def spec_link_footnotes(ctx, make_exe):
    fs = the(ctx.find(r"::start_link$", debug=["self", "target"]) and
             [f for f in ctx.find(r"::start_link$", debug=["self", "target"]) if "TextRenderer" in f.args[0][1]], "TextRenderer::start_link")
    fe = the([f for f in ctx.find(r"::end_link$", debug=["self"]) if "TextRenderer" in f.args[0][1]], "TextRenderer::end_link")
    names = ctx.structs["TextRenderer"]
    total = 0
    import summaries
    orig = summaries.summarize
    for k in ((0, 1, 2, 3, 5, 8) if ctx.tier == "thorough" else (0, 1, 2)):
        links = VVec([VOpaque("String", "link%d" % i) for i in range(k)])
        for which in ("start", "end"):
            if which == "end" and k == 0:
                continue
            exe = make_exe(loop_bound=4)
            tr = VAgg("TextRenderer", None, [VVec([VOpaque("SubRenderer<D>", "sub0")]) if n == "subrender" else links for n in names], names)
            exe.cell_n += 1
            cid = "cell%d" % exe.cell_n
            exe.global_cells[cid] = tr
            shown = []

            def summ(exe_, st_, f_, bb_, callee, args, dest_ty, shown=shown):
                c = callee.strip()
                if re.search(r"Argument::<'_>::new_display::<usize>$", c):
                    v = args[0]
                    while isinstance(v, VRef):
                        v = exe_.deref(st_, v)
                    shown.append(v)
                    return [(st_, VOpaque("Argument", "fmtarg"))]
                if re.search(r"<str as ToString>::to_string$", c) or re.search(r"as ToString>::to_string$", c):
                    return [(st_, VOpaque("String", "target_string"))]
                if re.search(r"as Renderer>::(start_link|end_link|add_inline_text)$", c):
                    return [(st_, VAgg("Result::Ok", "Ok", [VUnit()]))]
                return orig(exe_, st_, f_, bb_, callee, args, dest_ty)
            summaries.summarize = summ
            try:
                if which == "start":
                    outs = exe.run(fs.name, {1: VRef("cell", cid), 2: VRef("val", VOpaque("str", "target"))}, State())
                else:
                    outs = exe.run(fe.name, {1: VRef("cell", cid)}, State())
            finally:
                summaries.summarize = orig
            total += len(outs)
            for (s2, ret) in outs:
                blk = exe.deref(s2, VRef("cell", cid))
                lk = blk.fields[names.index("links")]
                seq = [c[0] for c in s2.calls]
                if which == "start":
                    ok = isinstance(lk, VVec) and len(lk.elems) == k + 1 and getattr(lk.elems[-1], "name", "") == "target_string" \
                        and [getattr(e, "name", "") for e in lk.elems[:-1]] == ["link%d" % i for i in range(k)]
                    post(exe, s2, z3.BoolVal(bool(ok)), fs.name, "start_link appends the target to the list of links (k=%d)" % k)
                    post(exe, s2, z3.BoolVal(any(re.search(r"as Renderer>::start_link$", c) for c in seq)), fs.name,
                         "start_link forwards to the current sub-renderer")
                else:
                    post(exe, s2, z3.BoolVal(isinstance(lk, VVec) and len(lk.elems) == k), fe.name, "end_link does not change the list of links")
                    ie = [i for i, c in enumerate(seq) if re.search(r"as Renderer>::end_link$", c)]
                    ia = [i for i, c in enumerate(seq) if re.search(r"as Renderer>::add_inline_text$", c)]
                    post(exe, s2, z3.BoolVal(len(ie) == 1), fe.name, "end_link closes the link on the current sub-renderer")
                    if ia:
                        post(exe, s2, z3.BoolVal(len(ia) == 1 and ie and ie[0] < ia[0]), fe.name, "the reference follows the link text")
                        okn = len(shown) == 1 and isinstance(shown[0], VInt)
                        post(exe, s2, z3.BoolVal(bool(okn)), fe.name, "exactly one number is printed")
                        if okn:
                            post(exe, s2, shown[0].e == u64(k), fe.name, "the reference number is the number of links started so far (k=%d)" % k)
                    # whether a reference is printed is governed by include_link_footnotes only
                    flag = [v for n_, v in exe.inputs.items() if n_.endswith(".%d.%d" % (ctx.field("SubRenderer", "options"), ctx.field("RenderOptions", "include_link_footnotes")))]
                    if flag:
                        post(exe, s2, flag[0] == z3.BoolVal(bool(ia)), fe.name, "a reference is printed iff link footnotes are enabled")
    return {"functions": [fs.name, fe.name], "paths": total}

# ----------------------------------------------------------------------------
# SPEC: CSS identifier characters are folded to lower case (nmstart_char / nmchar_char)
# ----------------------------------------------------------------------------

def spec_ident_case_fold(ctx, make_exe):
    import summaries
    orig = summaries.summarize
    total = 0
    names = []
    for fname, accepts_more in (("nmstart_char", False), ("nmchar_char", True)):
        f = the(ctx.find(r"^%s$" % fname), "css::parser::" + fname)
        names.append(f.name)
        exe = make_exe(loop_bound=4)
        st = State()
        ch = exe.fresh("u32", "first_char")
        st.pc += [z3.ULE(ch.e, z3.BitVecVal(0x10ffff, 32)), z3.Not(z3.And(z3.UGE(ch.e, 0xd800), z3.ULE(ch.e, 0xdfff)))]
        exe.hints = [ch.e >= 0x21, ch.e <= 0x7e]

        def summ(exe_, st_, f_, bb_, callee, args, dest_ty):
            c = callee.strip()
            if re.search(r"core::str::<impl str>::chars$", c):
                return [(st_, VIter("vec", VVec([ch]), 0))]
            if re.search(r"^<Chars<'_> as Iterator>::next$", c):
                it = exe_.deref(st_, args[0])
                if it.pos == 0:
                    exe_.write_ref(st_, args[0], [], VIter("vec", it.src, 1), None)
                    return [(st_, VAgg("Option::Some", "Some", [ch]))]
                return [(st_, VAgg("Option::None", "None", []))]
            if re.search(r"Chars::<'_>::as_str$", c):
                return [(st_, VRef("val", VOpaque("str", "remainder")))]
            if re.search(r"char::methods::<impl char>::to_ascii_lowercase$", c):
                v = args[0]
                while isinstance(v, VRef):
                    v = exe_.deref(st_, v)
                e = v.e
                return [(st_, VInt(z3.If(z3.And(z3.UGE(e, 0x41), z3.ULE(e, 0x5a)), e | 0x20, e), 32, False))]
            if re.search(r"^fail::<", c) or re.search(r"nom::error::Error::<&str>::new$", c):
                if c.startswith("fail"):
                    return [(st_, VAgg("Result::Err", "Err", [VOpaque("nom::Err", "fail")]))]
                return [(st_, VOpaque("nom::error::Error", "err"))]
            return orig(exe_, st_, f_, bb_, callee, args, dest_ty)
        summaries.summarize = summ
        try:
            outs = exe.run(f.name, {1: VRef("val", VOpaque("str", "input"))}, st)
        finally:
            summaries.summarize = orig
        total += len(outs)
        is_alpha = z3.Or(z3.And(z3.UGE(ch.e, 0x41), z3.ULE(ch.e, 0x5a)), z3.And(z3.UGE(ch.e, 0x61), z3.ULE(ch.e, 0x7a)))
        accepted = z3.Or(is_alpha, ch.e == 0x5f)
        if accepts_more:
            accepted = z3.Or(accepted, ch.e == 0x2d, z3.And(z3.UGE(ch.e, 0x30), z3.ULE(ch.e, 0x39)))
        lower = z3.If(z3.And(z3.UGE(ch.e, 0x41), z3.ULE(ch.e, 0x5a)), ch.e + 0x20, ch.e)
        n_ok = 0
        for (s2, ret) in outs:
            if isinstance(ret, VAgg) and ret.variant == "Ok":
                n_ok += 1
                tup = ret.fields[0]
                out_c = tup.fields[1]
                if not isinstance(out_c, VInt):
                    raise Inconclusive("%s: returned character not recovered" % fname)
                post(exe, s2, accepted, f.name, "%s accepts only identifier characters" % fname)
                post(exe, s2, out_c.e == lower, f.name, "%s returns the character folded to lower case (identifiers are case-insensitive)" % fname)
            elif isinstance(ret, VAgg) and ret.variant == "Err":
                post(exe, s2, z3.Not(accepted), f.name, "%s rejects only non-identifier characters" % fname)
            else:
                raise Inconclusive("%s: result shape not recovered" % fname)
        if n_ok == 0:
            raise Inconclusive("%s: no accepting path" % fname)
    return {"functions": names, "paths": total}

# ----------------------------------------------------------------------------
# SPEC: only nodes without content are called shallow-empty (empty links / containers are dropped on that answer)
# ----------------------------------------------------------------------------

def spec_shallow_empty_sound(ctx, make_exe):
    f = the([g for g in ctx.find(r"::is_shallow_empty$") if g.args and "RenderNode" in g.args[0][1]], "RenderNode::is_shallow_empty")
    one = ["Container", "Em", "Strong", "Strikeout", "Code", "Block", "ListItem", "Div", "BlockQuote", "Dl", "Dt", "Dd", "Ul", "Sup"]
    import summaries
    orig = summaries.summarize
    total = 0
    for kind in one + ["Link", "Ol", "Header", "Table", "TableCell", "TableBody", "TableRow"]:
        for k in ((0, 1, 2, 3, 4) if ctx.tier == "thorough" else (0, 1, 2)):
            if kind in ("Table", "TableCell", "TableBody", "TableRow") and k != 1:
                continue
            exe = make_exe(loop_bound=6)
            st = State()
            kids = VVec([VOpaque("RenderNode", "child%d" % i) for i in range(k)])
            empt = [exe.fresh("bool", "child%d.shallow_empty" % i) for i in range(k)]
            if kind in one:
                info = VAgg("RenderNodeInfo::" + kind, kind, [kids])
            elif kind == "Link":
                info = VAgg("RenderNodeInfo::Link", kind, [VOpaque("String", "href"), kids])
            elif kind == "Ol":
                info = VAgg("RenderNodeInfo::Ol", kind, [exe.fresh("i64", "start"), kids])
            elif kind == "Header":
                info = VAgg("RenderNodeInfo::Header", kind, [exe.fresh("usize", "level"), kids])
            elif kind == "TableRow":
                info = VAgg("RenderNodeInfo::TableRow", kind, [VOpaque("RenderTableRow", "row"), exe.fresh("bool", "vertical")])
            else:
                info = VAgg("RenderNodeInfo::" + kind, kind, [VOpaque(kind, "payload")])
            node = _agg(ctx, "RenderNode", info=info)

            def summ(exe_, st_, f_, bb_, callee, args, dest_ty, empt=empt):
                c = callee.strip()
                if re.search(r"RenderNode::is_shallow_empty$", c):
                    v = args[0]
                    while isinstance(v, VRef):
                        v = exe_.deref(st_, v)
                    if isinstance(v, VOpaque) and v.name.startswith("child"):
                        return [(st_, empt[int(v.name[5:])])]
                    return None
                return orig(exe_, st_, f_, bb_, callee, args, dest_ty)
            summaries.summarize = summ
            try:
                outs = exe.run(f.name, {1: VRef("val", node)}, st)
            finally:
                summaries.summarize = orig
            total += len(outs)
            for (s2, ret) in outs:
                if not isinstance(ret, VBool):
                    raise Inconclusive("result of is_shallow_empty not recovered")
                if kind in ("Table", "TableCell", "TableBody", "TableRow"):
                    post(exe, s2, z3.Not(ret.e), f.name, "a %s is never dropped as empty" % kind)
                else:
                    alle = z3.And([e.e for e in empt]) if empt else z3.BoolVal(True)
                    post(exe, s2, z3.Implies(ret.e, alle), f.name,
                         "%s with %d children: called empty only if every child is empty (content is never dropped)" % (kind, k))
                    if k == 0:
                        post(exe, s2, ret.e, f.name, "%s without children is empty" % kind)
    # text and image nodes: empty exactly when nothing but whitespace is left (string contents are a contract:
    # trim() yields a string whose length is arbitrary but not larger than the original)
    for kind in ("Text", "Img"):
        exe = make_exe(loop_bound=4)
        st = State()
        raw_len = exe.fresh("usize", "text.len")
        trimmed_len = exe.fresh("usize", "text.trim.len")
        st.pc += [z3.ULE(trimmed_len.e, raw_len.e), z3.ULE(raw_len.e, u64(1 << 40))]
        text = VOpaque("String", "text")
        info = VAgg("RenderNodeInfo::" + kind, kind, [text] if kind == "Text" else [VOpaque("String", "src"), text])
        node = _agg(ctx, "RenderNode", info=info)

        def summ2(exe_, st_, f_, bb_, callee, args, dest_ty):
            c = callee.strip()

            def nm(v):
                while isinstance(v, VRef):
                    v = exe_.deref(st_, v)
                return getattr(v, "name", None)
            if re.search(r"<String as Deref>::deref$", c):
                return [(st_, VRef("val", VOpaque("str", "text_str" if nm(args[0]) == "text" else "other_str")))]
            if re.search(r"core::str::<impl str>::trim$", c):
                return [(st_, VRef("val", VOpaque("str", "trimmed" if nm(args[0]) in ("text", "text_str") else "other_trimmed")))]
            if re.search(r"(core::str::<impl str>::len|String::len)$", c):
                n_ = nm(args[0])
                if n_ == "trimmed":
                    return [(st_, trimmed_len)]
                if n_ in ("text", "text_str"):
                    return [(st_, raw_len)]
                return None
            if re.search(r"(core::str::<impl str>::is_empty|String::is_empty)$", c):
                n_ = nm(args[0])
                if n_ == "trimmed":
                    return [(st_, VBool(trimmed_len.e == 0))]
                if n_ in ("text", "text_str"):
                    return [(st_, VBool(raw_len.e == 0))]
                return None
            return orig(exe_, st_, f_, bb_, callee, args, dest_ty)
        summaries.summarize = summ2
        try:
            outs = exe.run(f.name, {1: VRef("val", node)}, st)
        finally:
            summaries.summarize = orig
        total += len(outs)
        for (s2, ret) in outs:
            if not isinstance(ret, VBool):
                raise Inconclusive("result of is_shallow_empty not recovered")
            post(exe, s2, ret.e == (trimmed_len.e == 0), f.name,
                 "%s: empty exactly when only whitespace is left (a whitespace-only link must not leave a reference)" % kind)
    return {"function": f.name, "paths": total}

# ----------------------------------------------------------------------------
# SPEC: a declaration value ends at ';' and at the block's closing '}' (the final semicolon is optional)
# ----------------------------------------------------------------------------

def spec_value_token_end(ctx, make_exe):
    f = the(ctx.find(r"^parse_token_not_semicolon$"), "css::parser::parse_token_not_semicolon")
    exe = make_exe(loop_bound=4)
    st = State()
    names = ctx.enums.get("parser::Token") or ctx.enums.get("Token")
    if not names or "Semicolon" not in names or "CloseBrace" not in names:
        raise Inconclusive("Token enum not recovered")
    tok = VOpaque("css::parser::Token<'_>", "token")
    import summaries
    orig = summaries.summarize

    def summ(exe_, st_, f_, bb_, callee, args, dest_ty):
        c = callee.strip()
        if re.search(r"^parse_token$", c):
            ok = st_.clone()
            err = st_.clone()
            return [(ok, VAgg("Result::Ok", "Ok", [VAgg("tuple", None, [VRef("val", VOpaque("str", "rest")), tok])])),
                    (err, VAgg("Result::Err", "Err", [VOpaque("nom::Err", "tokerr")]))]
        if re.search(r"^<parser::Token<'_> as PartialEq>::eq$", c):
            a = args[0]
            b = args[1]
            while isinstance(a, VRef):
                a = exe_.deref(st_, a)
            while isinstance(b, VRef):
                b = exe_.deref(st_, b)
            # derived PartialEq: equal discriminants, and (for variants with a payload) equal payloads
            if isinstance(b, VAgg) and b.variant in names and not b.fields:
                return [(st_, VBool(exe_.discriminant(a).e == exe_.discriminant(b).e))]
            if isinstance(a, VAgg) and a.variant in names and not a.fields:
                return [(st_, VBool(exe_.discriminant(a).e == exe_.discriminant(b).e))]
            return None
        if re.search(r"^fail::<", c):
            return [(st_, VAgg("Result::Err", "Err", [VOpaque("nom::Err", "fail")]))]
        return orig(exe_, st_, f_, bb_, callee, args, dest_ty)
    summaries.summarize = summ
    try:
        outs = exe.run(f.name, {1: VRef("val", VOpaque("str", "input"))}, st)
    finally:
        summaries.summarize = orig
    d = exe.discriminant(tok).e
    n_ok = 0
    for (s2, ret) in outs:
        if isinstance(ret, VAgg) and ret.variant == "Ok":
            n_ok += 1
            post(exe, s2, d != names.index("Semicolon"), f.name, "a value token is never the ';' that ends the declaration")
            post(exe, s2, d != names.index("CloseBrace"), f.name,
                 "a value token is never the '}' that ends the block (the final semicolon is optional)")
        elif not (isinstance(ret, VAgg) and ret.variant == "Err") and not isinstance(ret, VOpaque):
            raise Inconclusive("result shape not recovered")
    if n_ok == 0:
        raise Inconclusive("no accepting path")
    return {"function": f.name, "paths": len(outs)}

# ----------------------------------------------------------------------------
# SPEC: every line of a sub-rendering receives its prefix (append_subrender's per-line closure)
# ----------------------------------------------------------------------------

def spec_subrender_prefix_lines(ctx, make_exe):
    f = the(ctx.find(r"::append_subrender::\{closure#0\}$"), "the per-line closure of SubRenderer::append_subrender")
    import summaries
    orig = summaries.summarize
    total = 0
    for kind in ("Text", "Line"):
        exe = make_exe(loop_bound=4)
        st = State()
        pe = exe.fresh("bool", "prefix.is_empty")
        le = exe.fresh("bool", "line.is_empty")
        tline = VOpaque("TaggedLine", "tline")
        if kind == "Text":
            line = VAgg("RenderLine::Text", "Text", [tline])
        else:
            line = VAgg("RenderLine::Line", "Line", [VOpaque("BorderHoriz", "border")])
        prefix = VRef("val", VOpaque("str", "prefix"))
        env = VAgg("closure", None, [VRef("val", VOpaque("Vec<Annotation>", "tagvec"))])

        def is_prefix(exe_, st_, v):
            while isinstance(v, VRef):
                v = exe_.deref(st_, v)
            return isinstance(v, VOpaque) and v.name == "prefix"

        def summ(exe_, st_, f_, bb_, callee, args, dest_ty):
            c = callee.strip()
            if re.search(r"core::str::<impl str>::is_empty$", c):
                return [(st_, pe)] if is_prefix(exe_, st_, args[0]) else None
            if re.search(r"TaggedLine::<.*>::is_empty$", c):
                return [(st_, le)]
            if re.search(r"<str as ToString>::to_string$", c):
                return [(st_, VOpaque("String", "prefix_string" if is_prefix(exe_, st_, args[0]) else "other_string"))]
            if re.search(r"BorderHoriz::<.*>::to_string$", c):
                return [(st_, VOpaque("String", "border_string"))]
            if re.search(r"as Clone>::clone$", c):
                return [(st_, VOpaque("Vec<Annotation>", "tag_copy"))]
            if re.search(r"TaggedLine::<.*>::new$", c):
                return [(st_, VOpaque("TaggedLine", "fresh_line"))]
            if re.search(r"TaggedLine::<.*>::(insert_front|push)$", c):
                return [(st_, VUnit())]
            return orig(exe_, st_, f_, bb_, callee, args, dest_ty)
        summaries.summarize = summ
        try:
            outs = exe.run(f.name, {1: VRef("val", env), 2: VAgg("tuple", None, [line, prefix])}, st)
        finally:
            summaries.summarize = orig
        total += len(outs)

        def sname(arg):
            # name of the string inside a TaggedString / TaggedLineElement::Str argument
            v = arg
            for _ in range(3):
                if isinstance(v, VAgg) and v.variant == "Str":
                    v = v.fields[0]
                elif isinstance(v, VAgg) and v.names and "s" in v.names:
                    v = v.fields[v.names.index("s")]
                elif isinstance(v, VAgg) and v.fields:
                    v = v.fields[0]
            return getattr(v, "name", None)
        for (s2, ret) in outs:
            ins = [c for c in s2.calls if re.search(r"TaggedLine::<.*>::insert_front$", c[0])]
            pushes = [c for c in s2.calls if re.search(r"TaggedLine::<.*>::push$", c[0])]
            post(exe, s2, z3.BoolVal(isinstance(ret, VAgg) and ret.variant == "Text"), f.name, "the result is a text line")
            if kind == "Text":
                ok_shape = len(ins) <= 1 and not pushes and all(sname(c[1][1]) == "prefix_string" for c in ins)
                post(exe, s2, z3.BoolVal(ok_shape), f.name, "a text line gets at most one insertion, of the prefix, at its front")
                post(exe, s2, z3.BoolVal(bool(ins)) == z3.Not(pe.e), f.name,
                     "every text line of the sub-rendering, empty or not, receives a non-empty prefix")
                kept = isinstance(ret, VAgg) and ret.fields and getattr(ret.fields[0], "name", None) == "tline"
                post(exe, s2, z3.BoolVal(bool(kept)), f.name, "the line itself is kept")
            else:
                got = [sname(c[1][1]) for c in pushes]
                post(exe, s2, z3.BoolVal(got == ["prefix_string", "border_string"] and not ins), f.name,
                     "a border line becomes prefix followed by the border (got %s)" % got)
    return {"function": f.name, "paths": total}

# ----------------------------------------------------------------------------
# SPEC: hard wrap of a word that does not fit (WrappedBlock::flush_word_hard_wrap, executed from MIR over strings
# modelled as sequences of symbolic characters)
# ----------------------------------------------------------------------------

class VStr(VAgg):
    """String model that also carries its characters (z3 char codes); path/fields as wrapmodel's StrModel."""

    def __init__(self, chars):
        import wrapmodel
        w = u64(0)
        nb = u64(0)
        for c in chars:
            w = w + wrapmodel.char_width(c)
            nb = nb + _len_utf8(c)
        VAgg.__init__(self, "StrModel", None, [VInt(z3.simplify(w), 64, False), VInt(z3.simplify(nb), 64, False)])
        self.chars = list(chars)


def _len_utf8(c):
    return z3.If(z3.ULT(c, 0x80), u64(1), z3.If(z3.ULT(c, 0x800), u64(2), z3.If(z3.ULT(c, 0x10000), u64(3), u64(4))))


HW_ALPHABET = {"a": 0x61, "e-acute": 0xe9, "wide": 0x5b57, "comb": 0x0301}


def _run_hard_wrap(ctx, make_exe, piece_lens, frag_between, max_width):
    import wrapmodel
    import summaries
    f = the(ctx.find(r"::flush_word_hard_wrap$", debug=["self", "lineleft"]), "WrappedBlock::flush_word_hard_wrap")
    exe, m, st, ref = _wrap_setup(ctx, make_exe, "Normal", False, loop_bound=16, hard_wrap="mir")
    # the word: pieces of symbolic characters (different tags), optionally a fragment marker between them
    pieces = []
    elems = []
    allchars = []
    for pi, n in enumerate(piece_lens):
        cs = []
        for k in range(n):
            c = exe.fresh("u32", "p%dc%d" % (pi, k))
            st.pc.append(z3.Or(*[c.e == v for v in HW_ALPHABET.values()]))
            cs.append(c.e)
        pieces.append(cs)
        allchars += cs
        if pi > 0 and frag_between:
            elems.append(VAgg("TaggedLineElement::FragmentStart", "FragmentStart", [VOpaque("String", "frag")]))
        ts = _agg(ctx, "TaggedString", s=VStr(cs), tag=VOpaque("T", "tag%d" % pi))
        elems.append(VAgg("TaggedLineElement::Str", "Str", [ts]))
    st.pc += [z3.ULE(m.width.e, u64(max_width)), m.wslen.e == 0]
    wordw = u64(0)
    for c in allchars:
        wordw = wordw + wrapmodel.char_width(c)
    blk = exe.global_cells[ref.a]
    fields = list(blk.fields)
    wi = m.names.index("word")
    fields[wi] = VAgg("TaggedLine", None, [VVec(elems), VInt(wordw, 64, False), VBool(z3.BoolVal(True)), VInt(wordw, 64, False)])
    exe.global_cells[ref.a] = VAgg("WrappedBlock", None, fields, m.names)
    inner = summaries.summarize
    pushed = []   # per path: recovered from the call log instead (states fork)

    def sval(exe_, st_, v):
        while isinstance(v, VRef):
            v = exe_.deref(st_, v)
        return v

    def slice_of(exe_, st_, f_, bb_, sv, start, end):
        """fork over the character boundaries that start / end can denote"""
        n = len(sv.chars)
        pref = [u64(0)]
        for c in sv.chars:
            pref.append(pref[-1] + _len_utf8(c))
        outs = []
        on_boundary = []
        for a in range(n + 1):
            for b in (range(a, n + 1) if end is not None else [n]):
                cond = start == pref[a]
                if end is not None:
                    cond = z3.And(cond, end == pref[b])
                on_boundary.append(cond)
                if exe_.feasible(st_, cond):
                    s3 = st_.clone()
                    s3.pc.append(cond)
                    outs.append((s3, VRef("val", VStr(sv.chars[a:b]))))
        exe_.oblige(st_, z3.Or(*on_boundary), "panic", f_.name, bb_, "string slice index is not on a character boundary / out of range", tag="bounds")
        return outs

    def summ(exe_, st_, f_, bb_, callee, args, dest_ty):
        c = callee.strip()
        if re.search(r"TaggedLine::<\w+>::remove_items$", c):
            w = sval(exe_, st_, args[0])
            v = w.fields[0]
            exe_.write_ref(st_, args[0], [], VAgg("TaggedLine", None, [VVec([]), VInt(u64(0), 64, False), VBool(z3.BoolVal(False)), VInt(u64(0), 64, False)]), None)
            return [(st_, VIter("vec", v, 0))]
        if re.search(r"TaggedString::<\w+>::width$", c):
            ts = sval(exe_, st_, args[0])
            return [(st_, ts.fields[ts.names.index("s")].fields[0])]
        if re.search(r"^<String as Index<std::ops::RangeFrom<usize>>>::index$", c):
            sv = sval(exe_, st_, args[0])
            if isinstance(sv, VStr):
                return slice_of(exe_, st_, f_, bb_, sv, args[1].fields[0].e, None)
            return None
        if re.search(r"^<String as Index<std::ops::Range<usize>>>::index$", c):
            sv = sval(exe_, st_, args[0])
            if isinstance(sv, VStr):
                return slice_of(exe_, st_, f_, bb_, sv, args[1].fields[0].e, args[1].fields[1].e)
            return None
        if re.search(r"core::str::<impl str>::char_indices$", c):
            sv = sval(exe_, st_, args[0])
            if isinstance(sv, VStr):
                items = []
                off = u64(0)
                for ch in sv.chars:
                    items.append(VAgg("tuple", None, [VInt(off, 64, False), VInt(ch, 32, False)]))
                    off = off + _len_utf8(ch)
                return [(st_, VIter("vec", VVec(items), 0))]
            return None
        if re.search(r"^<CharIndices<'_> as IntoIterator>::into_iter$", c):
            return [(st_, args[0])]
        if re.search(r"^<CharIndices<'_> as Iterator>::next$", c):
            it = exe_.deref(st_, args[0])
            if it.pos < len(it.src.elems):
                exe_.write_ref(st_, args[0], [], VIter("vec", it.src, it.pos + 1), None)
                return [(st_, VAgg("Option::Some", "Some", [it.src.elems[it.pos]]))]
            return [(st_, VAgg("Option::None", "None", []))]
        if re.search(r"char::methods::<impl char>::len_utf8$", c):
            return [(st_, VInt(_len_utf8(args[0].e), 64, False))]
        if re.search(r"^<&str as std::convert::Into<String>>::into$", c):
            return [(st_, sval(exe_, st_, args[0]))]
        if re.search(r"^String::len$", c):
            sv = sval(exe_, st_, args[0])
            if isinstance(sv, VStr):
                return [(st_, sv.fields[1])]
            return None
        return inner(exe_, st_, f_, bb_, callee, args, dest_ty)
    summaries.summarize = summ
    try:
        exe.hints = [z3.ULE(m.width.e, u64(6))]
        outs = exe.run(f.name, {1: ref}, st)
    finally:
        summaries.summarize = inner
        m.uninstall()
    return f, exe, m, ref, pieces, allchars, outs


def _hard_wrap_posts(ctx, f, exe, m, ref, pieces, allchars, outs, label, want_seq=None):
    import wrapmodel
    n_ok = 0
    for (s2, ret) in outs:
        if not (isinstance(ret, VAgg) and ret.variant in ("Ok", "Err")):
            raise Inconclusive("flush_word_hard_wrap did not return a Result")
        if ret.variant == "Err":
            post(exe, s2, z3.Not(m.allow_overflow.e), f.name, label + ": TooNarrow only when overflow is not allowed")
            # and only when some character cannot fit into an empty line of this width
            toowide = z3.Or(*[z3.UGT(wrapmodel.char_width(c), m.width.e) for c in allchars])
            post(exe, s2, toowide, f.name, label + ": TooNarrow only when a character is wider than the block")
            continue
        n_ok += 1
        p = _wrap_post_state(exe, m, s2, ref)
        post(exe, s2, z3.Implies(z3.Not(m.allow_overflow.e), z3.And(z3.ULE(p["line_len"], m.width.e), z3.ULE(p["maxlen"], m.width.e))),
             f.name, label + ": no line is wider than the block")
        post(exe, s2, z3.Not(p["word_nonempty"]), f.name, label + ": the word buffer is empty afterwards")
        # also with overflow allowed: an over-wide character is flushed on a line of its own, the line in progress always fits
        # (this is what the hard-wrap contract of the other wrap specs assumes)
        post(exe, s2, z3.ULE(p["line_len"], m.width.e), f.name, label + ": the line in progress fits the block even when overflow is allowed")
        # C11: allowing overflow changes nothing unless something cannot fit: when every character fits an empty line,
        # no flushed line is wider than the block, whatever the option says
        allfit = z3.And(*[z3.ULE(wrapmodel.char_width(c), m.width.e) for c in allchars])
        post(exe, s2, z3.Implies(allfit, z3.ULE(p["maxlen"], m.width.e)), f.name,
             label + ": with overflow allowed a line overflows only by a character wider than the block")
        # every character of the word is emitted exactly once, in order
        got = []
        seq = []      # characters and fragment markers in emission order
        for cl in s2.calls:
            if re.search(r"TaggedLine::<.*>::push$", cl[0]) and cl[2] == f.name:
                el = cl[1][1]
                if isinstance(el, VAgg) and el.variant == "Str":
                    sv = el.fields[0].fields[el.fields[0].names.index("s")] if el.fields[0].names else el.fields[0].fields[0]
                    if not isinstance(sv, VStr):
                        raise Inconclusive("pushed string not recovered")
                    got += sv.chars
                    seq += [("c", c_) for c_ in sv.chars]
                elif isinstance(el, VAgg) and el.variant == "FragmentStart":
                    seq.append(("frag", getattr(el.fields[0], "name", "?")))
        same = len(got) == len(allchars) and all(z3.eq(a, b) for a, b in zip(got, allchars))
        post(exe, s2, z3.BoolVal(bool(same)), f.name, label + ": every character of the word is emitted exactly once, in order (got %d of %d)" % (len(got), len(allchars)))
        if want_seq is not None:
            okf = len(seq) == len(want_seq) and all((a[0] == b[0]) and (z3.eq(a[1], b[1]) if a[0] == "c" else a[1] == b[1]) for a, b in zip(seq, want_seq))
            post(exe, s2, z3.BoolVal(bool(okf)), f.name,
                 label + ": fragment markers inside the word are emitted at their place (%d of %d markers)" % (
                     len([x for x in seq if x[0] == "frag"]), len([x for x in want_seq if x[0] == "frag"])))
    if n_ok == 0:
        raise Inconclusive("no successful path")


def spec_wrap_hard_wrap(ctx, make_exe):
    total = 0
    for (lens, frag) in (([2], False), ([2, 2], False), ([1, 2], True)):
        f, exe, m, ref, pieces, allchars, outs = _run_hard_wrap(ctx, make_exe, lens, frag, 1 << 20)
        total += len(outs)
        want_seq = []
        for pi_, cs_ in enumerate(pieces):
            if pi_ > 0 and frag:
                want_seq.append(("frag", "frag"))
            want_seq += [("c", c_) for c_ in cs_]
        _hard_wrap_posts(ctx, f, exe, m, ref, pieces, allchars, outs, "hard wrap %s%s" % (lens, " with markers" if frag else ""), want_seq)
    return {"function": f.name, "paths": total}


def _replay_pieces(vals):
    pcs = []
    pi = 0
    while ("p%dc0" % pi) in vals:
        cs = []
        k = 0
        while ("p%dc%d" % (pi, k)) in vals:
            cs.append(int(vals["p%dc%d" % (pi, k)]))
            k += 1
        pcs.append(cs)
        pi += 1
    v = [[len(pcs)]]
    for cs in pcs:
        v.append([len(cs)])
        for c in cs:
            v.append(le_bytes(c, 4))
    return v


def replay_fmt_links(fd, vals, info):
    return {"harness": "m_fmt_links", "values": [le_bytes(int(vals.get("width", 0)), 8), [1 if vals.get("wrap_links") else 0]] + _replay_pieces(vals)}


def spec_wrap_hard_wrap_deep(ctx, make_exe):
    total = 0
    for (lens, frag) in (([3], False), ([3, 2], False), ([2, 1, 2], True)):
        f, exe, m, ref, pieces, allchars, outs = _run_hard_wrap(ctx, make_exe, lens, frag, 1 << 20)
        total += len(outs)
        want_seq = []
        for pi_, cs_ in enumerate(pieces):
            if pi_ > 0 and frag:
                want_seq.append(("frag", "frag"))
            want_seq += [("c", c_) for c_ in cs_]
        _hard_wrap_posts(ctx, f, exe, m, ref, pieces, allchars, outs, "hard wrap %s%s" % (lens, " with markers" if frag else ""), want_seq)
    return {"function": f.name, "paths": total}


def replay_hard_wrap(fd, vals, info):
    g = lambda k: int(vals.get("s." + k, 0))
    return {"harness": "m_hard_wrap", "values": [le_bytes(g("width"), 8), le_bytes(g("line_len"), 8), [1 if vals.get("s.allow_overflow") else 0],
                                                  [1 if "with markers" in fd.msg else 0]] + _replay_pieces(vals)}


# ----------------------------------------------------------------------------
# SPEC: the footnote list is hard-wrapped to the width (SubRenderer::fmt_links)
# ----------------------------------------------------------------------------

def spec_fmt_links_wrap(ctx, make_exe):
    import wrapmodel
    import summaries
    f = the(ctx.find(r"::fmt_links$", debug=["self", "links"]), "SubRenderer::fmt_links")
    total = 0
    shapes_ = [[2], [1, 2], [2, 2]] + ([[3], [3, 2], [2, 3], [1, 1, 2]] if ctx.tier == "thorough" else [])
    for piece_lens in shapes_:
        exe = make_exe(loop_bound=24, timeout_ms=20000)
        m = wrapmodel.WrapModel(ctx, exe)     # only for its TaggedLine / char contracts
        m.install(hard_wrap="mir")
        st = State()
        width = exe.fresh("usize", "width")
        wrap_links = exe.fresh("bool", "wrap_links")
        st.pc += [z3.ULE(width.e, u64(1 << 20))]
        exe.hints = [z3.ULE(width.e, u64(6))]
        pieces = []
        allchars = []
        for pi, n in enumerate(piece_lens):
            cs = []
            for k in range(n):
                c = exe.fresh("u32", "p%dc%d" % (pi, k))
                st.pc.append(z3.Or(*[c.e == v for v in HW_ALPHABET.values()]))
                cs.append(c.e)
            allchars += cs
            pieces.append(_agg(ctx, "TaggedString", s=VStr(cs), tag=VOpaque("Annotation", "tag%d" % pi)))
        opts = _agg(ctx, "RenderOptions", wrap_links=wrap_links)
        sub = _agg(ctx, "SubRenderer", width=width, options=opts)
        exe.cell_n += 1
        cid = "cell%d" % exe.cell_n
        exe.global_cells[cid] = sub
        inner = summaries.summarize
        emitted = []

        def sval(exe_, st_, v):
            while isinstance(v, VRef):
                v = exe_.deref(st_, v)
            return v

        def summ(exe_, st_, f_, bb_, callee, args, dest_ty):
            c = callee.strip()
            if re.search(r"^Vec::<TaggedLine<.*>>::drain::<RangeFull>$", c):
                return [(st_, VIter("vec", VVec([VOpaque("TaggedLine", "link_line")]), 0))]
            if re.search(r"^<std::vec::Drain<'_, .*> as IntoIterator>::into_iter$", c):
                return [(st_, args[0])]
            if re.search(r"^<std::vec::Drain<'_, .*> as Iterator>::next$", c) or re.search(r"^<FilterMap<.*> as Iterator>::next$", c):
                it = exe_.deref(st_, args[0])
                if it.pos < len(it.src.elems):
                    exe_.write_ref(st_, args[0], [], VIter("vec", it.src, it.pos + 1), None)
                    return [(st_, VAgg("Option::Some", "Some", [it.src.elems[it.pos]]))]
                return [(st_, VAgg("Option::None", "None", []))]
            if re.search(r"TaggedLine::<.*>::into_tagged_strings$", c):
                return [(st_, VIter("vec", VVec(pieces), 0))]
            if re.search(r"^<FilterMap<.*> as IntoIterator>::into_iter$", c):
                return [(st_, args[0])]
            if re.search(r"^<String as Deref>::deref$", c):
                return [(st_, VRef("val", sval(exe_, st_, args[0])))]
            if re.search(r"std::str::<impl str>::replace::<char>$", c):
                return [(st_, sval(exe_, st_, args[0]))]     # the alphabet has no newline: replace('\n', " ") is the identity
            if re.search(r"Box::<\[.*; 1\]>::new_uninit$", c):
                return [(st_, VOpaque("Box", exe_.fresh_name("tagbox")))]
            if re.search(r"box_assume_init_into_vec_unsafe::<", c):
                return [(st_, VOpaque("Vec<Annotation>", exe_.fresh_name("tagvec")))]
            if re.search(r"^<str as UnicodeWidthStr>::width$", c):
                sv = sval(exe_, st_, args[0])
                return [(st_, sv.fields[0])] if isinstance(sv, VStr) else None
            if re.search(r"^String::new$", c):
                return [(st_, VStr([]))]
            if re.search(r"core::str::<impl str>::chars$", c):
                sv = sval(exe_, st_, args[0])
                if isinstance(sv, VStr):
                    return [(st_, VIter("vec", VVec([VInt(ch, 32, False) for ch in sv.chars]), 0))]
                return None
            if re.search(r"^String::is_empty$", c):
                sv = sval(exe_, st_, args[0])
                return [(st_, VBool(z3.BoolVal(len(sv.chars) == 0)))] if isinstance(sv, VStr) else None
            if re.search(r"^String::push$", c):
                sv = sval(exe_, st_, args[0])
                if isinstance(sv, VStr):
                    exe_.write_ref(st_, args[0], [], VStr(sv.chars + [args[1].e]), None)
                    return [(st_, VUnit())]
                return None
            if re.search(r"^<String as ToOwned>::to_owned$", c):
                return [(st_, sval(exe_, st_, args[0]))]
            if re.search(r"TaggedLine::<.*>::new$", c):
                return [(st_, wrapmodel.tagged_line(exe_, exe_.fresh_name("newline"), VInt(u64(0), 64, False), VBool(z3.BoolVal(False)), VInt(u64(0), 64, False)))]
            if re.search(r"TaggedLine::<.*>::push_str$", c):
                ts = args[1]
                sv = ts.fields[ts.names.index("s")] if ts.names else ts.fields[0]
                if not isinstance(sv, VStr):
                    raise PathEnd("push_str of a string that is not a model")
                l = exe_.deref(st_, args[0])
                v, ln, ne, gw = l.fields
                exe_.write_ref(st_, args[0], [], VAgg("TaggedLine", None, [v, VInt(ln.e + sv.fields[0].e, 64, False),
                                                                             VBool(z3.Or(ne.e, z3.BoolVal(len(sv.chars) > 0))),
                                                                             VInt(gw.e + sv.fields[0].e, 64, False)]), None)
                return [(st_, VUnit())]
            if re.search(r"SubRenderer::<D>::add_line$", c):
                return [(st_, VUnit())]
            return inner(exe_, st_, f_, bb_, callee, args, dest_ty)
        summaries.summarize = summ
        try:
            outs = exe.run(f.name, {1: VRef("cell", cid), 2: VOpaque("Vec<TaggedLine>", "links")}, st)
        finally:
            summaries.summarize = inner
            m.uninstall()
        total += len(outs)
        fits_all = z3.And(*[z3.ULE(wrapmodel.char_width(c), width.e) for c in allchars])
        if not outs:
            raise Inconclusive("no path returned")
        for (s2, ret) in outs:
            lines = []
            got = []
            for cl in s2.calls:
                if re.search(r"SubRenderer::<D>::add_line$", cl[0]) and cl[2] == f.name:
                    rl = cl[1][1]
                    tl = rl.fields[0] if isinstance(rl, VAgg) and rl.variant == "Text" else None
                    if not (isinstance(tl, VAgg) and tl.path == "TaggedLine"):
                        raise Inconclusive("emitted line not recovered")
                    lines.append(tl.fields[1].e)
                if re.search(r"TaggedLine::<.*>::push_str$", cl[0]) and cl[2] == f.name:
                    ts = cl[1][1]
                    sv = ts.fields[ts.names.index("s")] if ts.names else ts.fields[0]
                    got += sv.chars
            post(exe, s2, z3.BoolVal(len(lines) >= 1), f.name, "fmt_links emits the footnote line")
            for ln in lines:
                post(exe, s2, z3.Implies(z3.And(wrap_links.e, fits_all), z3.ULE(ln, width.e)), f.name,
                     "fmt_links %s: with wrap_links no footnote line is wider than the width" % (piece_lens,))
            same = len(got) == len(allchars) and all(z3.eq(a, b) for a, b in zip(got, allchars))
            post(exe, s2, z3.BoolVal(bool(same)), f.name, "fmt_links %s: every character of the footnote is emitted once, in order" % (piece_lens,))
            post(exe, s2, z3.Implies(z3.Not(wrap_links.e), z3.BoolVal(len(lines) == 1)), f.name, "fmt_links: without wrap_links one line per footnote")
    return {"function": f.name, "paths": total}

# ----------------------------------------------------------------------------
# SPEC: the unicode strikeout filter strikes exactly the characters that occupy columns
# ----------------------------------------------------------------------------

def _vstr_summaries(inner):
    """std::string operations over VStr (strings as sequences of symbolic characters)."""
    def sval(exe_, st_, v):
        while isinstance(v, VRef):
            v = exe_.deref(st_, v)
        return v

    def summ(exe_, st_, f_, bb_, callee, args, dest_ty):
        c = callee.strip()
        if re.search(r"^String::new$", c):
            return [(st_, VStr([]))]
        if re.search(r"^<String as Deref>::deref$", c):
            sv = sval(exe_, st_, args[0])
            return [(st_, VRef("val", sv))] if isinstance(sv, VStr) else inner(exe_, st_, f_, bb_, callee, args, dest_ty)
        if re.search(r"core::str::<impl str>::chars$", c):
            sv = sval(exe_, st_, args[0])
            if isinstance(sv, VStr):
                return [(st_, VIter("vec", VVec([VInt(ch, 32, False) for ch in sv.chars]), 0))]
        if re.search(r"^String::push$", c):
            sv = sval(exe_, st_, args[0])
            if isinstance(sv, VStr):
                exe_.write_ref(st_, args[0], [], VStr(sv.chars + [args[1].e]), None)
                return [(st_, VUnit())]
        if re.search(r"^String::is_empty$", c):
            sv = sval(exe_, st_, args[0])
            if isinstance(sv, VStr):
                return [(st_, VBool(z3.BoolVal(len(sv.chars) == 0)))]
        return inner(exe_, st_, f_, bb_, callee, args, dest_ty)
    return summ


def spec_strikeout_filter(ctx, make_exe):
    import wrapmodel
    import summaries
    f = the(ctx.find(r"^filter_text_strikeout$"), "filter_text_strikeout")
    exe = make_exe(loop_bound=8)
    m = wrapmodel.WrapModel(ctx, exe)
    m.install(hard_wrap="mir")
    st = State()
    cs = []
    for k in range(3):
        c = exe.fresh("u32", "c%d" % k)
        st.pc.append(z3.Or(*[c.e == v for v in list(HW_ALPHABET.values()) + [0x20, 0x0a, 0x09, 0xa0]]))
        cs.append(c.e)
    inner = summaries.summarize
    summaries.summarize = _vstr_summaries(inner)
    try:
        outs = exe.run(f.name, {1: VRef("val", VStr(cs))}, st)
    finally:
        summaries.summarize = inner
        m.uninstall()
    if not outs:
        raise Inconclusive("no path returned")
    for (s2, ret) in outs:
        if not (isinstance(ret, VAgg) and ret.variant == "Some" and isinstance(ret.fields[0], VStr)):
            raise Inconclusive("result of filter_text_strikeout not recovered")
        got = ret.fields[0].chars
        # expected on this path: each character, followed by U+0336 when it has a width
        i = 0
        ok_shape = True
        conds = []
        for c in cs:
            if i >= len(got) or not z3.eq(z3.simplify(got[i]), z3.simplify(c)):
                ok_shape = False
                break
            i += 1
            struck = i < len(got) and z3.is_bv_value(z3.simplify(got[i])) and z3.simplify(got[i]).as_long() == 0x336
            # a mark after whitespace would be laid out by add_text as a word of its own (an extra, empty-looking
            # line between blocks, a "word" at the start of the next line): striking must not change the layout
            conds.append(z3.And(z3.UGT(wrapmodel.char_width(c), u64(0)), z3.Not(wrapmodel.char_is_ws(c))) == z3.BoolVal(bool(struck)))
            if struck:
                i += 1
        ok_shape = ok_shape and i == len(got)
        post(exe, s2, z3.BoolVal(bool(ok_shape)), f.name, "strikeout keeps every character, in order, adding only U+0336 marks")
        if ok_shape:
            post(exe, s2, z3.And(*conds), f.name, "exactly the characters that occupy columns and are not whitespace are struck through")
    return {"function": f.name, "paths": len(outs)}

# ----------------------------------------------------------------------------
# SPEC: side-by-side table cells are joined column by column (SubRenderer::append_columns_with_borders)
# ----------------------------------------------------------------------------

def _border_model(name, width):
    return VAgg("BorderModel", None, [VOpaque("id", name), width])


def _run_columns(ctx, make_exe, shapes, prev_kind, collapse_v):
    """shapes: per column a string over {T, L} (text line / border line), e.g. ["T", "LTL"]."""
    import wrapmodel
    import summaries
    f = the(ctx.find(r"::append_columns_with_borders$", debug=["self", "cols", "collapse"]), "SubRenderer::append_columns_with_borders")
    clos = [g for g in ctx.find(r"::append_columns_with_borders::\{closure#\d+\}") ]
    exe = make_exe(loop_bound=24, timeout_ms=20000)
    m = wrapmodel.WrapModel(ctx, exe)
    m.install(hard_wrap="mir")
    st = State()
    n = len(shapes)
    ws = [exe.fresh("usize", "w%d" % i) for i in range(n)]
    collapse = VBool(z3.BoolVal(bool(collapse_v)))
    draw = exe.fresh("bool", "draw_borders")
    for w in ws:
        st.pc += [z3.UGE(w.e, u64(1)), z3.ULE(w.e, u64(1 << 20))]
    exe.hints = [z3.ULE(w.e, u64(6)) for w in ws]
    cols = []
    col_lines = {}
    for i, shape in enumerate(shapes):
        lines = []
        for j, k in enumerate(shape):
            if k == "T":
                ln = exe.fresh("usize", "c%dl%d.len" % (i, j))
                st.pc.append(z3.ULE(ln.e, ws[i].e))        # a cell's lines are not wider than the cell (C02 for the cell)
                tl = wrapmodel.tagged_line(exe, "c%dl%d" % (i, j), ln, VBool(ln.e != 0), ln)
                lines.append(VAgg("RenderLine::Text", "Text", [tl]))
            else:
                bw = exe.fresh("usize", "c%dl%d.bw" % (i, j))
                st.pc.append(z3.ULE(bw.e, ws[i].e))
                lines.append(VAgg("RenderLine::Line", "Line", [_border_model("c%dl%d" % (i, j), bw)]))
        col_lines["col%d" % i] = lines
        cols.append(_agg(ctx, "SubRenderer", width=ws[i], decorator=VOpaque("D", "col%d" % i)))
    opts = _agg(ctx, "RenderOptions", draw_borders=draw)
    selfv = _agg(ctx, "SubRenderer", options=opts, lines=VOpaque("LinkedList", "self.lines"), ann_stack=VOpaque("Vec<Annotation>", "ann"))
    exe.cell_n += 1
    cid = "cell%d" % exe.cell_n
    exe.global_cells[cid] = selfv
    prevw = exe.fresh("usize", "prev.bw")
    exe.cell_n += 1
    pid = "cell%d" % exe.cell_n
    if prev_kind == "border":
        exe.global_cells[pid] = VAgg("RenderLine::Line", "Line", [_border_model("prev", prevw)])
    elif prev_kind == "text":
        exe.global_cells[pid] = VAgg("RenderLine::Text", "Text", [wrapmodel.tagged_line(exe, "prevtext", prevw, VBool(z3.BoolVal(True)), prevw)])
    inner = summaries.summarize
    i_dec = ctx.field("SubRenderer", "decorator")

    def sval(exe_, st_, v):
        while isinstance(v, VRef):
            v = exe_.deref(st_, v)
        return v

    def bwidth(b):
        if not (isinstance(b, VAgg) and b.path == "BorderModel"):
            raise PathEnd("border that is not a model: %r" % (b,))
        return b.fields[1]

    def summ(exe_, st_, f_, bb_, callee, args, dest_ty):
        c = callee.strip()
        if re.search(r"SubRenderer::<D>::flush_wrapping$", c):
            return [(st_, VAgg("Result::Ok", "Ok", [VUnit()]))]
        if re.search(r"^<I as IntoIterator>::into_iter$", c):
            return [(st_, VIter("vec", args[0], 0))]
        if re.search(r"SubRenderer::<D>::into_lines$", c):
            sub = sval(exe_, st_, args[0])
            name = sub.fields[i_dec].name
            return [(st_, VAgg("Result::Ok", "Ok", [VVec(col_lines[name])]))]
        if re.search(r"^<LinkedList<.*> as IntoIterator>::into_iter$", c):
            return [(st_, VIter("vec", args[0], 0))]
        if re.search(r"TaggedLine::<.*>::pad_to$", c):
            l = sval(exe_, st_, args[0])
            v, ln, ne, gw = l.fields
            w = args[1]
            nl = z3.If(z3.UGT(w.e, ln.e), w.e, ln.e)
            exe_.write_ref(st_, args[0], [], VAgg("TaggedLine", None, [v, VInt(nl, 64, False), VBool(z3.Or(ne.e, z3.UGT(w.e, ln.e))), VInt(nl, 64, False)]), None)
            return [(st_, VUnit())]
        if re.search(r"BorderHoriz::<.*>::stretch_to$", c):
            b = sval(exe_, st_, args[0])
            w = args[1]
            exe_.write_ref(st_, args[0], [], VAgg("BorderModel", None, [b.fields[0], VInt(z3.If(z3.UGT(w.e, bwidth(b).e), w.e, bwidth(b).e), 64, False)]), None)
            return [(st_, VUnit())]
        if re.search(r"BorderHoriz::<.*>::new$", c):
            return [(st_, _border_model("next", args[0]))]
        if re.search(r"LinkedList::<.*>::back_mut$", c):
            if prev_kind == "none":
                return [(st_, VAgg("Option::None", "None", []))]
            return [(st_, VAgg("Option::Some", "Some", [VRef("cell", pid)]))]
        if re.search(r"BorderHoriz::<.*>::(join_below|join_above|merge_from_below|merge_from_above)$", c):
            # snapshot reference arguments now: the locals they point to are reused by the next iteration
            if st_.calls and len(args) >= 3:
                nm, av, fn_, bb2 = st_.calls[-1]
                st_.calls[-1] = (nm, [av[0], sval(exe_, st_, av[1])] + list(av[2:]), fn_, bb2)
            return [(st_, VUnit())]
        if re.search(r"BorderHoriz::<.*>::to_vertical_lines_above$", c):
            b = sval(exe_, st_, args[0])
            return [(st_, wrapmodel.str_model(bwidth(b), bwidth(b)))]
        if re.search(r"BorderHoriz::<.*>::to_string$", c):
            b = sval(exe_, st_, args[0])
            return [(st_, wrapmodel.str_model(bwidth(b), bwidth(b)))]
        if re.search(r"SubRenderer::<D>::add_line$", c):
            return [(st_, VUnit())]
        if re.search(r"^<std::ops::Range<usize> as Iterator>::map::<char, ", c):
            return [(st_, VIter("map", args[0], 0, args[1] if len(args) > 1 else None))]
        if re.search(r"^<std::iter::Map<std::ops::Range<usize>, .*> as Iterator>::collect::<String>$", c):
            it = sval(exe_, st_, args[0])
            rng = sval(exe_, st_, it.src) if isinstance(it, VIter) else None
            if isinstance(rng, VAgg) and len(rng.fields) == 2:
                nsp = VInt(rng.fields[1].e - rng.fields[0].e, 64, False)
                return [(st_, wrapmodel.str_model(nsp, nsp))]
            return None
        if re.search(r"^<String as Index<std::ops::Range<usize>>>::index$", c):
            sv = sval(exe_, st_, args[0])
            a, b = args[1].fields[0], args[1].fields[1]
            if isinstance(sv, VAgg) and sv.path == "StrModel":
                exe_.oblige(st_, z3.And(z3.ULE(a.e, b.e), z3.ULE(b.e, sv.fields[1].e)), "panic", f_.name, bb_, "string slice out of range", tag="bounds")
                nn = VInt(b.e - a.e, 64, False)
                return [(st_, VRef("val", wrapmodel.str_model(nn, nn)))]
            return None
        if re.search(r"^<str as ToString>::to_string$", c):
            return [(st_, sval(exe_, st_, args[0]))]
        if re.search(r"^<Option<String> as Clone>::clone$", c):
            return [(st_, sval(exe_, st_, args[0]))]
        return inner(exe_, st_, f_, bb_, callee, args, dest_ty)
    summaries.summarize = summ
    try:
        outs = exe.run(f.name, {1: VRef("cell", cid), 2: VVec(cols), 3: collapse}, st)
    finally:
        summaries.summarize = inner
        m.uninstall()
    return f, exe, ws, collapse, draw, prevw, outs


def _columns_posts(exe, f, outs, shapes, prev_kind, collapse_v, ws, draw, label):
    n = len(shapes)
    tot = u64(n - 1)
    for w in ws:
        tot = tot + w.e
    pos = []
    acc = u64(0)
    for i in range(n):
        pos.append(acc)
        acc = acc + ws[i].e + 1
    # what the function is documented to do, simulated on the shapes
    remaining = []
    want_below = []
    want_above = []
    for i, shape in enumerate(shapes):
        lines = [(k, "c%dl%d" % (i, j)) for j, k in enumerate(shape)]
        if collapse_v:
            if lines and lines[0][0] == "L":
                want_below.append((lines[0][1], pos[i]))
                lines.pop(0)
            if lines and lines[-1][0] == "L":
                want_above.append((lines[-1][1], pos[i]))
                lines.pop()
        remaining.append(lines)
    height = max([len(r) for r in remaining] + [0])

    def bid(exe_, s2, v):
        while isinstance(v, VRef):
            v = exe_.deref(s2, v)
        return v.fields[0].name if isinstance(v, VAgg) and v.path == "BorderModel" else None
    for (s2, ret) in outs:
        post(exe, s2, z3.BoolVal(isinstance(ret, VAgg) and ret.variant == "Ok"), f.name, label + ": succeeds")
        calls = [c for c in s2.calls if c[2] == f.name]
        news = [c for c in calls if re.search(r"BorderHoriz::<.*>::new$", c[0])]
        post(exe, s2, z3.BoolVal(len(news) == 1), f.name, label + ": one closing rule is built")
        if news:
            post(exe, s2, news[0][1][0].e == tot, f.name, label + ": the closing rule is as wide as the columns plus their separators")
        jb = [c[1][1].e for c in calls if re.search(r"::join_below$", c[0])]
        ja = [c[1][1].e for c in calls if re.search(r"::join_above$", c[0])]
        want_j = [pos[i] + ws[i].e for i in range(n - 1)] if prev_kind == "border" else []
        for got, nm in ((jb, "the rule above"), (ja, "the closing rule")):
            post(exe, s2, z3.BoolVal(len(got) == len(want_j)), f.name, label + ": %s gets one junction per column boundary (got %d)" % (nm, len(got)))
            if len(got) == len(want_j):
                for g, w_ in zip(got, want_j):
                    post(exe, s2, g == w_, f.name, label + ": junctions of %s sit at the column boundaries" % nm)
        mb = [(bid(exe, s2, c[1][1]), c[1][2].e) for c in calls if re.search(r"::merge_from_below$", c[0])]
        ma = [(bid(exe, s2, c[1][1]), c[1][2].e) for c in calls if re.search(r"::merge_from_above$", c[0])]
        for got, want, nm in ((mb, want_below, "top"), (ma, want_above, "bottom")):
            post(exe, s2, z3.BoolVal([g[0] for g in got] == [w_[0] for w_ in want]), f.name,
                 label + ": nested %s borders merged: %s (want %s)" % (nm, [g[0] for g in got], [w_[0] for w_ in want]))
            if [g[0] for g in got] == [w_[0] for w_ in want]:
                for g, w_ in zip(got, want):
                    post(exe, s2, g[1] == w_[1], f.name, label + ": a nested %s border is merged at its column's offset" % nm)
        # rows
        rows = [[]]
        emitted = []
        for c in calls:
            if re.search(r"SubRenderer::<D>::add_line$", c[0]):
                emitted.append(c[1][1])
                rows.append([])
            elif re.search(r"TaggedLine::<.*>::consume$", c[0]):
                v = c[1][1]
                while isinstance(v, VRef):
                    v = exe.deref(s2, v)
                rows[-1].append(("text", v.fields[0].name if isinstance(v, VAgg) and isinstance(v.fields[0], VOpaque) else "?"))
            elif re.search(r"TaggedLine::<.*>::push$", c[0]):
                el = c[1][1]
                sv = el.fields[0].fields[0] if isinstance(el, VAgg) and el.variant == "Str" else None
                rows[-1].append(("str", sv.fields[0].e if isinstance(sv, VAgg) and sv.path == "StrModel" else None))
            elif re.search(r"TaggedLine::<.*>::push_char$", c[0]):
                rows[-1].append(("sep", None))
        rows = rows[:-1] if rows and not rows[-1] else rows
        text_lines = [e for e in emitted if isinstance(e, VAgg) and e.variant == "Text"]
        rule_lines = [e for e in emitted if isinstance(e, VAgg) and e.variant == "Line"]
        post(exe, s2, z3.BoolVal(len(text_lines) == height), f.name, label + ": one output line per line of the tallest cell (%d, want %d)" % (len(text_lines), height))
        post(exe, s2, z3.BoolVal(len(rule_lines) == 1) == draw.e, f.name, label + ": the closing rule is emitted iff borders are drawn")
        for r, tl in enumerate(text_lines):
            ln = tl.fields[0].fields[1].e
            post(exe, s2, ln == tot, f.name, label + ": every joined line is exactly as wide as the table row")
        for r, row in enumerate(rows[:height]):
            ok = len(row) == 2 * n - 1 and all(row[k][0] == "sep" for k in range(1, len(row), 2))
            post(exe, s2, z3.BoolVal(ok), f.name, label + ": row %d is cell, separator, cell, ... (got %s)" % (r, [x[0] for x in row]))
            if not ok:
                continue
            for i in range(n):
                kind, val = row[2 * i]
                if r < len(remaining[i]) and remaining[i][r][0] == "T":
                    post(exe, s2, z3.BoolVal(kind == "text" and val == remaining[i][r][1] + ".v"), f.name,
                         label + ": row %d column %d shows that cell's line %d (got %s %s)" % (r, i, r, kind, val))
                else:
                    post(exe, s2, z3.BoolVal(kind == "str" and val is not None), f.name, label + ": row %d column %d is filled" % (r, i))
                    if kind == "str" and val is not None:
                        post(exe, s2, val == ws[i].e, f.name, label + ": filler / nested rule in row %d column %d has the column's width" % (r, i))


def spec_columns_join(ctx, make_exe):
    total = 0
    two = ["", "T", "TT", "TL", "LTL", "LT"]
    scen = [(["T"], "border"), (["TT"], "none"), (["LTL"], "border")]
    for a_ in two:
        for b_ in two:
            scen.append(([a_, b_], "border"))
    scen += [(["T", "TT"], "none"), (["TT", "T"], "text"), (["T", "LTL", "TT"], "border"), (["TL", "T", "LT"], "border"), (["TT", "", "T"], "none")]
    if ctx.tier == "thorough":
        three = ["T", "LTL", "TL", ""]
        for a_ in three:
            for b_ in three:
                for c_ in three:
                    scen.append(([a_, b_, c_], "border"))
        scen += [(["TTT", "T"], "border"), (["LTTL", "TT"], "border"), (["T", "T", "T", "T"], "border")]
    for (shapes, prev_kind) in scen:
        for collapse_v in (True, False):
            f, exe, ws, collapse, draw, prevw, outs = _run_columns(ctx, make_exe, shapes, prev_kind, collapse_v)
            total += len(outs)
            if not outs:
                raise Inconclusive("no path returned for %s" % (shapes,))
            _columns_posts(exe, f, outs, shapes, prev_kind, collapse_v, ws, draw, "columns %s%s" % ("|".join(shapes), " collapsing" if collapse_v else ""))
    return {"function": f.name, "paths": total, "scenarios": 2 * len(scen)}

# ----------------------------------------------------------------------------
# SPEC: building the render tree only reads the DOM (a parsed document can be rendered again)
# ----------------------------------------------------------------------------

def spec_dom_text_readonly(ctx, make_exe):
    f = the(ctx.find(r"^process_dom_node$"), "process_dom_node")
    ctx.enums.setdefault("NodeData", ["Document", "Doctype", "Text", "Comment", "Element", "ProcessingInstruction"])
    import summaries
    orig = summaries.summarize
    total = 0
    for kind in ("Text", "Comment", "Doctype"):
        exe = make_exe(inline=[r"RenderNode::new$"], loop_bound=6)
        if kind == "Text":
            data = VAgg("NodeData::Text", "Text", [VOpaque("RefCell<Tendril>", "text_cell")])
        elif kind == "Comment":
            data = VAgg("NodeData::Comment", "Comment", [VOpaque("Tendril", "comment")])
        else:
            data = VAgg("NodeData::Doctype", "Doctype", [VOpaque("Tendril", "n"), VOpaque("Tendril", "p"), VOpaque("Tendril", "s")])
        node = VAgg("Node", None, [VOpaque("Cell", "parent"), VOpaque("RefCell", "children"), data])
        inp = _agg(ctx, "RenderInput", handle=VOpaque("Rc<Node>", "handle"))

        def summ(exe_, st_, f_, bb_, callee, args, dest_ty):
            c = callee.strip()
            if re.search(r"^<Rc<Node> as Clone>::clone$", c):
                return [(st_, VOpaque("Rc<Node>", "handle_clone"))]
            if re.search(r"^<Rc<Node> as Deref>::deref$", c):
                return [(st_, VRef("val", node))]
            if re.search(r"^RefCell::<Tendril<UTF8>>::borrow$", c):
                return [(st_, VOpaque("Ref<Tendril>", "text_borrow"))]
            if re.search(r"^<Ref<'_, Tendril<UTF8>> as Deref>::deref$", c):
                return [(st_, VRef("val", VOpaque("Tendril", "text_tendril")))]
            if re.search(r"as std::convert::Into<String>>::into$", c):
                v = args[0]
                while isinstance(v, VRef):
                    v = exe_.deref(st_, v)
                return [(st_, VOpaque("String", "string_of:" + getattr(v, "name", "?")))]
            return orig(exe_, st_, f_, bb_, callee, args, dest_ty)
        summaries.summarize = summ
        try:
            outs = exe.run(f.name, {1: inp, 2: VOpaque("&mut T", "err_out"), 3: VOpaque("&mut HtmlContext", "context")}, State())
        finally:
            summaries.summarize = orig
        total += len(outs)
        if not outs:
            raise Inconclusive("no path returned for a %s node" % kind)
        for (s2, ret) in outs:
            calls = [c[0] for c in s2.calls if c[2] == f.name]
            mutators = [c for c in calls if re.search(r"(RefCell|Cell)::<.*>::(take|replace|replace_with|swap|borrow_mut|set|get_mut|into_inner|try_borrow_mut)$", c)
                        or re.search(r"std::mem::(take|replace|swap)::<", c)]
            post(exe, s2, z3.BoolVal(not mutators), f.name, "%s node: the DOM is only read while the render tree is built (mutating calls: %s)" % (kind, mutators))
            ok = isinstance(ret, VAgg) and ret.variant == "Ok"
            post(exe, s2, z3.BoolVal(ok), f.name, "%s node: conversion succeeds" % kind)
            if ok and kind == "Text":
                tm = ret.fields[0]
                fin = isinstance(tm, VAgg) and tm.variant == "Finished"
                name = None
                if fin:
                    rn = tm.fields[0]
                    info = rn.fields[rn.names.index("info")] if isinstance(rn, VAgg) and rn.names else None
                    if isinstance(info, VAgg) and info.variant == "Text":
                        name = getattr(info.fields[0], "name", None)
                post(exe, s2, z3.BoolVal(name == "string_of:text_tendril"), f.name, "Text node: becomes a text render node holding a copy of the node's text (got %s)" % name)
            if ok and kind != "Text":
                tm = ret.fields[0]
                post(exe, s2, z3.BoolVal(isinstance(tm, VAgg) and tm.variant == "Nothing"), f.name, "%s node: contributes nothing" % kind)
    return {"function": f.name, "paths": total}

# ----------------------------------------------------------------------------
# SPEC: where an element's declarations come from (StyleData::computed_style): rules in origin order with their own
# importance; attributes only when document CSS is enabled, as inline author declarations with their own importance
# ----------------------------------------------------------------------------

def spec_computed_style_sources(ctx, make_exe):
    f = the(ctx.find(r"::computed_style$", debug=["self", "parent_style", "handle"]), "StyleData::computed_style")
    ctx.enums.setdefault("NodeData", ["Document", "Doctype", "Text", "Comment", "Element", "ProcessingInstruction"])
    imp_names = ctx.enums.get("Importance")
    org_names = ctx.enums.get("StyleOrigin")
    if not imp_names or not org_names:
        raise Inconclusive("enums Importance / StyleOrigin not recovered")
    import summaries
    orig = summaries.summarize
    total = 0
    ATTRS = ["style", "color", "bgcolor", "class"]
    for n_attrs in ((0, 1, 2, 3) if ctx.tier == "thorough" else (0, 1, 2)):
        exe = make_exe(inline=[r"<Importance as PartialEq>::eq$", r"<css::Importance as PartialEq>::eq$"], loop_bound=12)
        st = State()
        use_doc = exe.fresh("bool", "use_doc_css")

        def rule(tag):
            decl = _agg(ctx, "StyleDecl", style=VOpaque("Style", "style:" + tag), importance=VOpaque("Importance", "imp:" + tag))
            return _agg(ctx, "Ruleset", selector=VOpaque("Selector", "sel:" + tag), styles=VVec([decl]))
        sd = _agg(ctx, "StyleData", agent_rules=VVec([rule("agent")]), user_rules=VVec([rule("user")]), author_rules=VVec([rule("author")]))
        matches = {t: exe.fresh("bool", "matches:" + t) for t in ("agent", "user", "author")}
        kinds = [exe.fresh("u8", "attr%d.name" % k) for k in range(n_attrs)]
        for kv in kinds:
            st.pc.append(z3.ULT(kv.e, len(ATTRS)))
        for i_ in range(n_attrs):
            for j_ in range(i_ + 1, n_attrs):
                st.pc.append(kinds[i_].e != kinds[j_].e)      # the parser keeps one attribute per name
        attrs = VVec([VAgg("Attribute", None, [VAgg("QualName", None, [VOpaque("Option<Prefix>", "pfx"), VOpaque("Namespace", "ns"), VOpaque("Atom", "attrname%d" % k)]),
                                                VOpaque("Tendril", "attrvalue%d" % k)]) for k in range(n_attrs)])
        node = VAgg("Node", None, [VOpaque("Cell", "parent"), VOpaque("RefCell", "children"),
                                   VAgg("NodeData::Element", "Element", [VOpaque("QualName", "elname"), VOpaque("RefCell<Vec<Attribute>>", "attrcell"),
                                                                         VOpaque("RefCell", "tc"), VOpaque("bool", "mx")])])
        parse_ok = exe.fresh("bool", "colour_parses")

        def nm(exe_, st_, v):
            while isinstance(v, VRef):
                v = exe_.deref(st_, v)
            return getattr(v, "name", None) or ""

        def lit(exe_, st_, v):
            n_ = nm(exe_, st_, v)
            m_ = re.search(r'"([a-z]+)"', n_)
            return m_.group(1) if m_ else None

        def summ(exe_, st_, f_, bb_, callee, args, dest_ty):
            c = callee.strip()
            if re.search(r"ComputedStyle::inherit$", c):
                return [(st_, VOpaque("ComputedStyle", "result"))]
            if re.search(r"Selector::matches$", c):
                return [(st_, matches[nm(exe_, st_, args[0])[4:]])]
            if re.search(r"Selector::specificity$", c):
                return [(st_, VOpaque("Specificity", "spec:" + nm(exe_, st_, args[0])[4:]))]
            if re.search(r"Specificity::inline$", c):
                return [(st_, VOpaque("Specificity", "spec:inline"))]
            if re.search(r"Option::<PseudoElement>::as_ref$", c):
                return [(st_, VOpaque("Option<&PseudoElement>", "pseudo"))]
            if re.search(r"StyleData::merge_computed_style$", c):
                return [(st_, VUnit())]
            if re.search(r"^<Rc<Node> as Deref>::deref$", c):
                return [(st_, VRef("val", node))]
            if re.search(r"^RefCell::<Vec<Attribute>>::borrow$", c):
                return [(st_, VRef("val", attrs))]
            if re.search(r"^<Ref<'_, Vec<Attribute>> as Deref>::deref$", c):
                return [(st_, args[0])]
            if re.search(r"Atom<LocalNameStaticSet> as PartialEq<&str>>::eq$", c) or re.search(r"^<&str as PartialEq>::eq$", c):
                a_, b_ = nm(exe_, st_, args[0]), lit(exe_, st_, args[1])
                m_ = re.match(r"(?:deref:)?attrname(\d+)$", a_)
                if m_ and b_ in ATTRS:
                    return [(st_, VBool(kinds[int(m_.group(1))].e == ATTRS.index(b_)))]
                return None
            if re.search(r"Atom<LocalNameStaticSet> as Deref>::deref$", c):
                return [(st_, VRef("val", VOpaque("str", "deref:" + nm(exe_, st_, args[0]))))]
            if re.search(r"^<Tendril<UTF8> as Deref>::deref$", c):
                return [(st_, VRef("val", VOpaque("str", "value:" + nm(exe_, st_, args[0]))))]
            if re.search(r"^parse_style_attribute$", c):
                k = nm(exe_, st_, args[0])[-1]
                decl = _agg(ctx, "StyleDecl", style=VOpaque("Style", "style:inline" + k), importance=VOpaque("Importance", "imp:inline" + k))
                return [(st_, VAgg("Result::Ok", "Ok", [VVec([decl])]))]
            if re.search(r"Result::<Vec<StyleDecl>, .*>::unwrap_or_default$", c):
                v = args[0]
                return [(st_, v.fields[0] if isinstance(v, VAgg) and v.variant == "Ok" else VVec([]))]
            if re.search(r"parse_color_attribute$", c):
                ok = st_.clone()
                ok.pc.append(parse_ok.e)
                bad = st_.clone()
                bad.pc.append(z3.Not(parse_ok.e))
                return [(ok, VAgg("Result::Ok", "Ok", [VOpaque("parser::Colour", "colour")])), (bad, VAgg("Result::Err", "Err", [VOpaque("Error", "e")]))]
            if re.search(r"as std::convert::Into<Colour>>::into$", c):
                return [(st_, VOpaque("Colour", "colour2"))]
            return orig(exe_, st_, f_, bb_, callee, args, dest_ty)
        summaries.summarize = summ
        try:
            outs = exe.run(f.name, {1: VRef("val", sd), 2: VRef("val", VOpaque("ComputedStyle", "parent")),
                                    3: VRef("val", VOpaque("Rc<Node>", "handle")), 4: use_doc}, st)
        finally:
            summaries.summarize = orig
        total += len(outs)
        if not outs:
            raise Inconclusive("no path returned")
        i_imp = ctx.field("StyleDecl", "importance")
        for (s2, ret) in outs:
            merges = [c for c in s2.calls if re.search(r"StyleData::merge_computed_style$", c[0]) and c[2] == f.name]
            seen_attr = False
            rule_tags = []
            for mc in merges:
                a = mc[1]
                important, origin, spec, decl = a[1], a[2], a[3], a[5]
                d = decl
                while isinstance(d, VRef):
                    d = exe.deref(s2, d)
                sname = getattr(spec, "name", "")
                dimp = d.fields[i_imp] if isinstance(d, VAgg) and d.names else None
                own_important = None
                if isinstance(dimp, VOpaque):
                    own_important = exe.discriminant(dimp).e == imp_names.index("Important")
                elif isinstance(dimp, VAgg) and dimp.variant:
                    own_important = z3.BoolVal(dimp.variant == "Important")
                if sname == "spec:inline":
                    seen_attr = True
                    post(exe, s2, use_doc.e, f.name, "attributes of the document style an element only when document CSS is enabled")
                    post(exe, s2, z3.BoolVal(isinstance(origin, VAgg) and origin.variant == "Author"), f.name, "attribute declarations are author declarations")
                    if own_important is not None and isinstance(important, VBool):
                        post(exe, s2, important.e == own_important, f.name, "a style attribute's declaration keeps its own importance (!important)")
                else:
                    tag = sname[5:]
                    rule_tags.append(tag)
                    post(exe, s2, z3.BoolVal(not seen_attr), f.name, "selector rules are applied before the element's own attributes")
                    post(exe, s2, matches[tag].e if tag in matches else z3.BoolVal(False), f.name, "only rules whose selector matches are applied")
                    want_origin = {"agent": "Agent", "user": "User", "author": "Author"}.get(tag)
                    post(exe, s2, z3.BoolVal(isinstance(origin, VAgg) and origin.variant == want_origin), f.name, "a rule is applied with the origin of its sheet (%s)" % tag)
                    if own_important is not None and isinstance(important, VBool):
                        post(exe, s2, important.e == own_important, f.name, "a rule's declaration keeps its own importance")
            post(exe, s2, z3.BoolVal(rule_tags == [t for t in ("agent", "user", "author") if t in rule_tags]), f.name, "sheets are applied in the order agent, user, author (got %s)" % rule_tags)
            for t in ("agent", "user", "author"):
                post(exe, s2, matches[t].e == z3.BoolVal(t in rule_tags), f.name, "every matching rule is applied (%s)" % t)
            # a style attribute is applied whenever document CSS is on
            for k in range(n_attrs):
                applied = any(getattr(mc[1][5], "name", None) is None and _decl_style_name(exe, s2, mc[1][5]) == "style:inline%d" % k for mc in merges)
                post(exe, s2, z3.And(use_doc.e, kinds[k].e == 0) == z3.BoolVal(bool(applied)), f.name, "a style attribute is applied exactly when document CSS is enabled")
    return {"function": f.name, "paths": total}


def _decl_style_name(exe, s2, d):
    while isinstance(d, VRef):
        d = exe.deref(s2, d)
    if isinstance(d, VAgg) and d.names and "style" in d.names:
        return getattr(d.fields[d.names.index("style")], "name", None)
    return None

# ----------------------------------------------------------------------------
# SPEC: ordered-list markers are laid out by their display width (estimate, render arm, per-item closure)
# ----------------------------------------------------------------------------

def spec_ol_marker_columns(ctx, make_exe):
    import wrapmodel
    import summaries
    orig = summaries.summarize
    est = the(ctx.find(r"^calc_ol_prefix_size$", debug=["start", "num_items", "max_number"]), "calc_ol_prefix_size")
    ren = the(ctx.find(r"^do_render_node$", debug=["start", "num_items", "max_number", "prefixn"]), "do_render_node (Ol arm)")
    post_cl = the([g for g in ctx.find(r"^do_render_node::\{closure#\d+\}$") if "prefixn" in g.debug and "i" in g.debug and "prefix_width" in g.debug],
                  "the per-item closure of the Ol arm")

    def layer(exe, markers, extra=None):
        """string contracts: a marker is a string with independent byte length and display width"""
        def sval(exe_, st_, v):
            while isinstance(v, VRef):
                v = exe_.deref(st_, v)
            return v

        def summ(exe_, st_, f_, bb_, callee, args, dest_ty):
            c = callee.strip()
            if extra is not None:
                r = extra(exe_, st_, f_, bb_, c, args)
                if r is not None:
                    return r
            if re.search(r"::ordered_item_prefix$", c):
                k = len(markers)
                w = exe_.fresh("usize", "marker%d.width" % k)
                nb = exe_.fresh("usize", "marker%d.bytes" % k)
                st_.pc += [z3.ULE(w.e, u64(1 << 20)), z3.ULE(nb.e, u64(1 << 22)), z3.ULE(w.e, nb.e * 2)]
                markers.append((args[1], w, nb))
                return [(st_, wrapmodel.str_model(w, nb))]
            if re.search(r"^String::len$", c) or re.search(r"core::str::<impl str>::len$", c):
                v = sval(exe_, st_, args[0])
                if isinstance(v, VAgg) and v.path == "StrModel":
                    return [(st_, v.fields[1])]
                return None
            if re.search(r"UnicodeWidthStr>::width$", c):
                v = sval(exe_, st_, args[0])
                if isinstance(v, VAgg) and v.path == "StrModel":
                    return [(st_, v.fields[0])]
                return None
            if re.search(r"^String::as_str$", c) or re.search(r"^<String as Deref>::deref$", c):
                v = sval(exe_, st_, args[0])
                if isinstance(v, VAgg) and v.path == "StrModel":
                    return [(st_, VRef("val", v))]
                return None
            if re.search(r"std::str::<impl str>::repeat$", c):
                return [(st_, wrapmodel.str_model(args[1], args[1]))]
            if re.search(r"^String::push_str$", c):
                a = sval(exe_, st_, args[0])
                b = sval(exe_, st_, args[1])
                if all(isinstance(x, VAgg) and x.path == "StrModel" for x in (a, b)):
                    exe_.write_ref(st_, args[0], [], wrapmodel.str_model(VInt(a.fields[0].e + b.fields[0].e, 64, False), VInt(a.fields[1].e + b.fields[1].e, 64, False)), None)
                    return [(st_, VUnit())]
                return None
            if re.search(r"^(format|must_use::<String>)$", c):
                v = args[0] if args else None
                if c.startswith("must_use") and isinstance(v, VAgg) and v.path == "StrModel":
                    return [(st_, v)]
                # formatting machinery is not modelled: the result is some string
                w = exe_.fresh("usize", exe_.fresh_name("formatted.width"))
                nb = exe_.fresh("usize", exe_.fresh_name("formatted.bytes"))
                return [(st_, wrapmodel.str_model(w, nb))]
            return orig(exe_, st_, f_, bb_, callee, args, dest_ty)
        return summ

    def umax(a, b):
        return z3.If(z3.UGE(a, b), a, b)
    total = 0
    # A. the size estimate
    exe = make_exe(loop_bound=4)
    markers = []
    summaries.summarize = layer(exe, markers)
    st0 = State()
    items0 = exe.fresh("usize", "num_items")
    st0.pc.append(z3.ULE(items0.e, u64(1 << 32)))      # a list's items fit in memory (the overflow side is ol_numbering's subject)
    try:
        outs = exe.run(est.name, {1: exe.fresh("i64", "start"), 2: items0, 3: VRef("val", VOpaque("D", "decorator"))}, st0)
    finally:
        summaries.summarize = orig
    total += len(outs)
    n_ok = 0
    for (s2, ret) in outs:
        if isinstance(ret, VInt) and len(markers) == 2:
            n_ok += 1
            post(exe, s2, ret.e == umax(markers[0][1].e, markers[1][1].e), est.name,
                 "estimate: the marker column is as wide as the wider of the first and last marker, in display columns")
    if not n_ok:
        raise Inconclusive("calc_ol_prefix_size: result not recovered")
    # B. the render arm: common width and the indentation of later lines
    exe = make_exe(loop_bound=4)
    markers = []
    st = State()
    start = exe.fresh("i64", "start")
    items = exe.fresh("usize", "num_items")
    st.pc += [z3.ULE(items.e, u64(1 << 32)), z3.UGE(items.e, u64(1))]
    sl = int(ren.debug["start"][1:])
    nl = int(ren.debug["num_items"][1:])
    pn = int(ren.debug["prefixn"][1:])
    entry = None
    for name in ren.order:
        raw = " ".join(ren.blocks[name].raw)
        if re.search(r"_%d as i64 \(IntToInt\)" % nl, raw) and not ren.blocks[name].cleanup:
            entry = name
            break
    stop = set(n_ for n_ in ren.order if re.search(r"Cell::<i64>::new\(", " ".join(ren.blocks[n_].raw)))
    if entry is None or not stop:
        raise Inconclusive("Ol arm of do_render_node not located")
    pw_local = None
    for name in ren.order:
        t = ren.blocks[name].term
        if t and t[0] == "call" and "std::cmp::max::<usize>" in t[2] and t[1] is not None:
            # the one fed by prefix_width_min / prefix_width_max
            if ("_%s" % ren.debug.get("prefix_width_min", "_x")[1:]) in " ".join(ren.blocks[name].raw):
                pw_local = t[1].local
    if pw_local is None:
        raise Inconclusive("prefix_width of the Ol arm not located")
    summaries.summarize = layer(exe, markers)
    try:
        outs = exe.run(ren.name, {1: VRef("val", VOpaque("TextRenderer<D>", "renderer"))}, st, entry=entry,
                       env_overrides={sl: start, nl: items}, stop_at=stop)
    finally:
        summaries.summarize = orig
    total += len(outs)
    n_ok = 0
    for (s2, ret) in outs:
        if isinstance(ret, tuple) and ret[0] == "stopped" and len(markers) == 2:
            fr = s2.frames[ret[2]]
            pw = fr.get(pw_local)
            pnv = fr.get(pn)
            if isinstance(pw, VInt):
                n_ok += 1
                post(exe, s2, pw.e == umax(markers[0][1].e, markers[1][1].e), ren.name,
                     "render: the marker column is as wide as the wider of the first and last marker, in display columns")
                if isinstance(pnv, VAgg) and pnv.path == "StrModel":
                    post(exe, s2, pnv.fields[0].e == pw.e, ren.name, "render: later lines of an item are indented by the marker column's width")
                else:
                    raise Inconclusive("indentation string of the Ol arm not recovered")
    if not n_ok:
        raise Inconclusive("Ol arm: marker width not computed on any path")
    # C. per item: the number, its padding, and the counter
    exe = make_exe(loop_bound=4)
    markers = []
    st = State()
    pw = exe.fresh("usize", "prefix_width")
    cur = exe.fresh("i64", "counter")
    st.pc += [z3.ULE(pw.e, u64(1 << 20))]
    caps = {}
    for name, place in post_cl.debug.items():
        m_ = re.match(r"\(\(\*_1\)\.(\d+): (.*)\)$", place)
        if m_:
            caps[int(m_.group(1))] = name
    fields = []
    for k in range(max(caps) + 1):
        nm_ = caps.get(k)
        fields.append({"i": VAgg("Cell", None, [cur]), "prefix_width": pw, "prefixn": wrapmodel.str_model(pw, pw)}.get(nm_, VOpaque("?", "cap%d" % k)))
    env = VAgg("closure", None, fields)
    exe.cell_n += 1
    cid = "cell%d" % exe.cell_n
    exe.global_cells[cid] = env
    events = []

    def extra(exe_, st_, f_, bb_, c, args):
        if re.search(r"TextRenderer::<D>::pop$", c):
            return [(st_, VOpaque("SubRenderer<D>", "sub"))]
        if re.search(r"^once::<&str>$", c):
            v = args[0]
            while isinstance(v, VRef):
                v = exe_.deref(st_, v)
            return [(st_, VAgg("Once", None, [v]))]
        if re.search(r"^std::iter::repeat::<&str>$", c):
            v = args[0]
            while isinstance(v, VRef):
                v = exe_.deref(st_, v)
            return [(st_, VAgg("Repeat", None, [v]))]
        if re.search(r"as Iterator>::chain::<", c):
            return [(st_, VAgg("Chain", None, [args[0], args[1]]))]
        if re.search(r"as Renderer>::append_subrender::<", c):
            return [(st_, VAgg("Result::Ok", "Ok", [VUnit()]))]
        if re.search(r"^Cell::<i64>::get$", c):
            v = exe_.deref(st_, args[0])
            return [(st_, v.fields[0])]
        if re.search(r"^Cell::<i64>::set$", c):
            exe_.write_ref(st_, args[0], [], VAgg("Cell", None, [args[1]]), None)
            return [(st_, VUnit())]
        return None
    summaries.summarize = layer(exe, markers, extra)
    try:
        outs = exe.run(post_cl.name, {1: VRef("cell", cid), 2: VRef("val", VOpaque("TextRenderer<D>", "renderer")), 3: VRef("val", VOpaque("Option", "node"))}, st)
    finally:
        summaries.summarize = orig
    total += len(outs)
    if not outs:
        raise Inconclusive("per-item closure: no path returned")
    for (s2, ret) in outs:
        post(exe, s2, z3.BoolVal(len(markers) == 1), post_cl.name, "per item: one marker is produced")
        if len(markers) != 1:
            continue
        num, w1, nb1 = markers[0]
        post(exe, s2, num.e == cur.e, post_cl.name, "per item: the marker shows the current number")
        sets = [c for c in s2.calls if re.search(r"^Cell::<i64>::set$", c[0]) and c[2] == post_cl.name]
        apps = [c for c in s2.calls if re.search(r"as Renderer>::append_subrender::<", c[0]) and c[2] == post_cl.name]
        post(exe, s2, z3.BoolVal(len(apps) == 1 and len(sets) == 1), post_cl.name, "per item: the item is appended once and the number advances once")
        if len(sets) == 1:
            nxt = sets[0][1][1]
            sat = z3.If(cur.e == z3.BitVecVal((1 << 63) - 1, 64), cur.e, cur.e + 1)
            post(exe, s2, nxt.e == sat, post_cl.name, "per item: the next number is the current one plus one")
        if len(apps) == 1:
            ch = apps[0][1][2]
            ok = isinstance(ch, VAgg) and ch.path == "Chain" and isinstance(ch.fields[0], VAgg) and ch.fields[0].path == "Once" \
                and isinstance(ch.fields[1], VAgg) and ch.fields[1].path == "Repeat"
            post(exe, s2, z3.BoolVal(bool(ok)), post_cl.name, "per item: the marker goes on the first line, the indentation on every later line")
            if ok:
                first = ch.fields[0].fields[0]
                later = ch.fields[1].fields[0]
                if not (isinstance(first, VAgg) and first.path == "StrModel" and isinstance(later, VAgg) and later.path == "StrModel"):
                    raise Inconclusive("marker strings not recovered")
                post(exe, s2, z3.Implies(z3.ULE(w1.e, pw.e), first.fields[0].e == pw.e), post_cl.name,
                     "per item: the padded marker fills exactly the marker column (display width)")
                post(exe, s2, later.fields[0].e == pw.e, post_cl.name, "per item: later lines are indented by the marker column's width")
    return {"functions": [est.name, ren.name, post_cl.name], "paths": total}

# ----------------------------------------------------------------------------
# SPEC: column spans are bounded where they enter, so the column counting cannot overflow
# ----------------------------------------------------------------------------

COLSPAN_CAP = 1 << 31   # any cap up to this keeps a row of < 2^32 cells below 2^63 columns (HTML's own limit is 1000)


def spec_colspan_bounded(ctx, make_exe):
    ctx.enums.setdefault("NodeData", ["Document", "Doctype", "Text", "Comment", "Element", "ProcessingInstruction"])
    import summaries
    orig = summaries.summarize
    td = the(ctx.find(r"^td_to_render_tree$"), "td_to_render_tree")
    per_cell = the(ctx.find(r"^tbody_to_render_tree::\{closure#0\}::\{closure#1\}::\{closure#0\}$"), "tbody: per-cell closure")
    fold = the(ctx.find(r"^tbody_to_render_tree::\{closure#0\}::\{closure#1\}::\{closure#1\}$"), "tbody: fold closure")
    total = 0
    # 1. the span stored for a cell is what the attribute says, capped
    for n_attrs in (0, 1, 2):
        exe = make_exe(loop_bound=8)
        st = State()
        kinds = [exe.fresh("bool", "attr%d.is_colspan" % k) for k in range(n_attrs)]
        parsed = [exe.fresh("usize", "attr%d.value" % k) for k in range(n_attrs)]
        parses = [exe.fresh("bool", "attr%d.parses" % k) for k in range(n_attrs)]
        if n_attrs == 2:
            st.pc.append(z3.Not(z3.And(kinds[0].e, kinds[1].e)))     # attribute names are distinct
        attrs = VVec([VAgg("Attribute", None, [VAgg("QualName", None, [VOpaque("Option<Prefix>", "pfx"), VOpaque("Namespace", "ns"), VOpaque("Atom", "attrname%d" % k)]),
                                                VOpaque("Tendril", "attrvalue%d" % k)]) for k in range(n_attrs)])
        node = VAgg("Node", None, [VOpaque("Cell", "parent"), VOpaque("RefCell", "children"),
                                   VAgg("NodeData::Element", "Element", [VOpaque("QualName", "elname"), VOpaque("RefCell<Vec<Attribute>>", "attrcell"),
                                                                         VOpaque("RefCell", "tc"), VOpaque("bool", "mx")])])
        inp = _agg(ctx, "RenderInput", handle=VOpaque("Rc<Node>", "handle"))
        captured = []

        def nm(exe_, st_, v):
            while isinstance(v, VRef):
                v = exe_.deref(st_, v)
            return getattr(v, "name", None) or ""

        def summ(exe_, st_, f_, bb_, callee, args, dest_ty):
            c = callee.strip()
            if re.search(r"^<Rc<Node> as Deref>::deref$", c):
                return [(st_, VRef("val", node))]
            if re.search(r"^RefCell::<Vec<Attribute>>::borrow$", c):
                return [(st_, VRef("val", attrs))]
            if re.search(r"^<Ref<'_, Vec<Attribute>> as Deref>::deref$", c):
                return [(st_, args[0])]
            if re.search(r"Atom<LocalNameStaticSet> as PartialEq<&str>>::eq$", c):
                m_ = re.match(r"attrname(\d+)$", nm(exe_, st_, args[0]))
                if m_ and '"colspan"' in nm(exe_, st_, args[1]):
                    return [(st_, kinds[int(m_.group(1))])]
                return None
            if re.search(r"^<Tendril<UTF8> as Deref>::deref$", c):
                return [(st_, VRef("val", VOpaque("str", "value:" + nm(exe_, st_, args[0]))))]
            if re.search(r"core::str::<impl str>::parse::<usize>$", c):
                k = int(nm(exe_, st_, args[0])[-1])
                ok = st_.clone()
                ok.pc.append(parses[k].e)
                bad = st_.clone()
                bad.pc.append(z3.Not(parses[k].e))
                return [(ok, VAgg("Result::Ok", "Ok", [parsed[k]])), (bad, VAgg("Result::Err", "Err", [VOpaque("ParseIntError", "e")]))]
            if re.search(r"Result::<usize, ParseIntError>::unwrap_or$", c):
                v = args[0]
                return [(st_, v.fields[0] if isinstance(v, VAgg) and v.variant == "Ok" else args[1])]
            if re.search(r"^pending::<", c):
                captured.append((st_.clone(), args[1]))
                return [(st_, VOpaque("TreeMapResult", "pending"))]
            return orig(exe_, st_, f_, bb_, callee, args, dest_ty)
        summaries.summarize = summ
        try:
            outs = exe.run(td.name, {1: inp, 2: VOpaque("ComputedStyle", "computed"), 3: VOpaque("&mut T", "err_out")}, st)
        finally:
            summaries.summarize = orig
        total += len(outs)
        if not captured:
            raise Inconclusive("td_to_render_tree: the cell closure was not built")
        for (s2, clos) in captured:
            span = None
            if isinstance(clos, VAgg):
                if clos.names and "colspan" in clos.names:
                    span = clos.fields[clos.names.index("colspan")]
                else:
                    ints = [x for x in clos.fields if isinstance(x, VInt)]
                    span = ints[0] if len(ints) == 1 else None
            if not isinstance(span, VInt):
                raise Inconclusive("td_to_render_tree: captured colspan not recovered")
            post(exe, s2, z3.ULE(span.e, u64(COLSPAN_CAP)), td.name, "a cell's column span is bounded (at most 2^31) whatever the attribute says, so that counting columns cannot overflow")
            # and it is the attribute's value (or 1) when that is within the cap
            want = u64(1)
            for k in range(n_attrs):
                val = z3.If(parses[k].e, parsed[k].e, u64(1))
                want = z3.If(kinds[k].e, val, want)
            post(exe, s2, z3.Implies(z3.ULE(want, u64(1000)), span.e == want), td.name,
                 "a cell's column span is its colspan attribute (1 if absent or unparsable) for every value HTML allows (up to 1000)")
    # 2. counting the columns of a row cannot overflow for bounded spans
    exe = make_exe(loop_bound=4)
    st = State()
    span = exe.fresh("usize", "cell.colspan")
    st.pc.append(z3.ULE(span.e, u64(COLSPAN_CAP)))
    cell = _agg(ctx, "RenderTableCell", colspan=span)
    outs = exe.run(per_cell.name, {1: VRef("val", VAgg("closure", None, [])), 2: VRef("val", cell)}, st)
    total += len(outs)
    for (s2, ret) in outs:
        if not (isinstance(ret, VAgg) and len(ret.fields) == 2 and isinstance(ret.fields[1], VInt)):
            raise Inconclusive("per-cell closure: result not recovered")
        post(exe, s2, z3.And(z3.UGE(ret.fields[1].e, u64(1)), z3.ULE(ret.fields[1].e, u64(COLSPAN_CAP))), per_cell.name, "a cell counts for at least one and at most its span of columns")
    exe = make_exe(loop_bound=4)
    st = State()
    acc = exe.fresh("usize", "acc.columns")
    one = exe.fresh("usize", "cell.columns")
    st.pc += [z3.ULE(acc.e, u64(COLSPAN_CAP << 32)), z3.ULE(one.e, u64(COLSPAN_CAP))]      # fewer than 2^32 cells in a row
    a = VAgg("tuple", None, [exe.fresh("bool", "acc.zero"), acc])
    b = VAgg("tuple", None, [exe.fresh("bool", "cell.zero"), one])
    outs = exe.run(fold.name, {1: VRef("val", VAgg("closure", None, [])), 2: a, 3: b}, st)
    total += len(outs)
    for (s2, ret) in outs:
        if not (isinstance(ret, VAgg) and len(ret.fields) == 2 and isinstance(ret.fields[1], VInt)):
            raise Inconclusive("fold closure: result not recovered")
        post(exe, s2, ret.fields[1].e == acc.e + one.e, fold.name, "the column count of a row is the sum over its cells")
    return {"functions": [td.name, per_cell.name, fold.name], "paths": total}

# ----------------------------------------------------------------------------
# SPEC: inline text reaches the wrapping block with the annotations current at that moment (SubRenderer::add_inline_text)
# ----------------------------------------------------------------------------

def spec_inline_text_tags(ctx, make_exe):
    import summaries
    orig = summaries.summarize
    cands = [g for g in ctx.find(r"::add_inline_text$", debug=["self", "text", "filtered_text", "ws_mode"]) if "SubRenderer" in g.args[0][1]]
    f = the(cands, "SubRenderer::add_inline_text")
    total = 0
    for n_filters in (0, 1):
        exe = make_exe(loop_bound=6)
        st = State()
        at_end = exe.fresh("bool", "at_block_end")
        pre_depth = exe.fresh("usize", "pre_depth")
        preserve = exe.fresh("bool", "ws.preserve")
        all_ws = exe.fresh("bool", "text.all_whitespace")
        filt_some = exe.fresh("bool", "filter.changes")
        filters = VVec([VOpaque("fn(&str) -> Option<String>", "const:verif::filter%d" % k) for k in range(n_filters)])
        sub = _agg(ctx, "SubRenderer", at_block_end=at_end, pre_depth=pre_depth, text_filter_stack=filters,
                   ann_stack=VVec([VOpaque("Annotation", "outer")]), wrapping=VOpaque("Option<WrappedBlock>", "wrapping"),
                   width=exe.fresh("usize", "width"), options=VOpaque("RenderOptions", "options"), decorator=VOpaque("D", "decorator"))
        exe.cell_n += 1
        cid = "cell%d" % exe.cell_n
        exe.global_cells[cid] = sub
        text = VRef("val", VOpaque("str", "text"))

        def nm(exe_, st_, v):
            while isinstance(v, VRef):
                v = exe_.deref(st_, v)
            return v

        def summ(exe_, st_, f_, bb_, callee, args, dest_ty):
            c = callee.strip()
            if re.search(r"SubRenderer::<D>::ws_mode$", c):
                return [(st_, VOpaque("WhiteSpace", "wsmode"))]
            if re.search(r"WhiteSpace::preserve_whitespace$", c):
                return [(st_, preserve)]
            if re.search(r"core::str::<impl str>::chars$", c):
                return [(st_, VOpaque("Chars", "chars"))]
            if re.search(r"^<Chars<'_> as Iterator>::all::<", c):
                return [(st_, all_ws)]
            if re.search(r"as Renderer>::start_block$", c):
                # starting the block clears the flag (contract of start_block)
                blk = exe_.deref(st_, args[0])
                fields = list(blk.fields)
                fields[blk.names.index("at_block_end")] = VBool(z3.BoolVal(False))
                exe_.write_ref(st_, args[0], [], VAgg(blk.path, blk.variant, fields, blk.names), None)
                return [(st_, VAgg("Result::Ok", "Ok", [VUnit()]))]
            if re.search(r"Option::<String>::as_deref$", c):
                v = nm(exe_, st_, args[0])
                if isinstance(v, VAgg) and v.variant == "Some":
                    return [(st_, VAgg("Option::Some", "Some", [VRef("val", v.fields[0])]))]
                if isinstance(v, VAgg) and v.variant == "None":
                    return [(st_, VAgg("Option::None", "None", []))]
                return None
            if re.search(r"verif::filter\d+$", c):
                some = st_.clone()
                some.pc.append(filt_some.e)
                none = st_.clone()
                none.pc.append(z3.Not(filt_some.e))
                return [(some, VAgg("Option::Some", "Some", [VOpaque("String", "filtered")])), (none, VAgg("Option::None", "None", []))]
            if re.search(r"^get_wrapping_or_insert::<D>$", c):
                return [(st_, VRef("val", VOpaque("WrappedBlock", "block")))]
            if re.search(r"as Clone>::clone$", c):
                v = nm(exe_, st_, args[0])
                return [(st_, VVec(list(v.elems)) if isinstance(v, VVec) else None)] if isinstance(v, VVec) else None
            if re.search(r"TextDecorator>::decorate_preformat_first$", c):
                return [(st_, VOpaque("Annotation", "pre_first"))]
            if re.search(r"TextDecorator>::decorate_preformat_cont$", c):
                return [(st_, VOpaque("Annotation", "pre_cont"))]
            if re.search(r"WrappedBlock::<.*>::add_text$", c):
                if st_.calls:
                    n_, av, fn_, bb2 = st_.calls[-1]
                    st_.calls[-1] = (n_, [av[0], nm(exe_, st_, av[1]), av[2], nm(exe_, st_, av[3]), nm(exe_, st_, av[4])], fn_, bb2)
                return [(st_, VAgg("Result::Ok", "Ok", [VUnit()]))]
            return orig(exe_, st_, f_, bb_, callee, args, dest_ty)
        summaries.summarize = summ
        try:
            outs = exe.run(f.name, {1: VRef("cell", cid), 2: text}, st)
        finally:
            summaries.summarize = orig
        total += len(outs)
        if not outs:
            raise Inconclusive("no path returned")
        for (s2, ret) in outs:
            adds = [c for c in s2.calls if re.search(r"WrappedBlock::<.*>::add_text$", c[0]) and c[2] == f.name]
            ignored = z3.And(z3.Not(preserve.e), at_end.e, all_ws.e)
            post(exe, s2, z3.BoolVal(len(adds) <= 1), f.name, "text is handed to the wrapping block at most once")
            post(exe, s2, ignored == z3.BoolVal(len(adds) == 0), f.name,
                 "text is dropped exactly when it is only whitespace between blocks in a collapsing mode")
            if len(adds) == 1:
                _, a, _, _ = adds[0]
                txt, main, cont = a[1], a[3], a[4]
                names = lambda v: [getattr(x, "name", "?") for x in v.elems] if isinstance(v, VVec) else None
                tname = getattr(txt, "name", None)
                if n_filters == 0:
                    post(exe, s2, z3.BoolVal(tname == "text"), f.name, "without filters the text itself is added (got %s)" % tname)
                else:
                    post(exe, s2, filt_some.e == z3.BoolVal(tname == "filtered"), f.name, "a filter's result replaces the text exactly when it returns one (got %s)" % tname)
                in_pre = z3.UGT(pre_depth.e, u64(0))
                post(exe, s2, z3.If(in_pre, z3.BoolVal(names(main) == ["outer", "pre_first"]), z3.BoolVal(names(main) == ["outer"])), f.name,
                     "text carries the annotations current at that moment (plus the preformatted mark inside <pre>): %s" % names(main))
                post(exe, s2, z3.If(in_pre, z3.BoolVal(names(cont) == ["outer", "pre_cont"]), z3.BoolVal(names(cont) == ["outer"])), f.name,
                     "continuation pieces carry the same annotations (plus the continuation mark inside <pre>): %s" % names(cont))
    return {"function": f.name, "paths": total}

# ----------------------------------------------------------------------------
# SPEC: a table keeps the rows of all its row groups, and drops no child that has content
# ----------------------------------------------------------------------------

def spec_table_children_kept(ctx, make_exe):
    import summaries
    orig = summaries.summarize
    f = the(ctx.find(r"^table_to_render_tree::\{closure#0\}$"), "table_to_render_tree: the closure assembling the table")
    total = 0
    shapes = [["B"], ["B", "B"], ["B", "X"], ["X", "B"], ["B", "X", "B"], ["X"], ["X", "X", "B"], []]
    for shape in shapes:
        exe = make_exe(inline=[r"RenderNode::new_styled$", r"RenderNode::new$"], loop_bound=8)
        st = State()
        kids = []
        empties = {}
        for i, k in enumerate(shape):
            if k == "B":
                info = VAgg("RenderNodeInfo::TableBody", "TableBody", [VVec([VOpaque("RenderTableRow", "g%dr0" % i), VOpaque("RenderTableRow", "g%dr1" % i)])])
            else:
                info = VAgg("RenderNodeInfo::Container", "Container", [VVec([VOpaque("RenderNode", "x%d.content" % i)])])
                empties[i] = exe.fresh("bool", "child%d.has_no_content" % i)
            kids.append(_agg(ctx, "RenderNode", info=info))
        env = VAgg("closure", None, [VOpaque("ComputedStyle", "computed")])

        def kid_index(exe_, st_, v):
            while isinstance(v, VRef):
                v = exe_.deref(st_, v)
            for i, kd in enumerate(kids):
                if v is kd:
                    return i
            # moved copies: identify by the content token
            if isinstance(v, VAgg) and v.names and "info" in v.names:
                inf = v.fields[v.names.index("info")]
                if isinstance(inf, VAgg) and inf.variant == "Container" and isinstance(inf.fields[0], VVec) and inf.fields[0].elems:
                    m_ = re.match(r"x(\d+)\.content$", getattr(inf.fields[0].elems[0], "name", ""))
                    if m_:
                        return int(m_.group(1))
            return None

        def summ(exe_, st_, f_, bb_, callee, args, dest_ty):
            c = callee.strip()
            if re.search(r"as Extend<.*>>::extend::<", c):
                dst = args[0]
                cur = dst
                while isinstance(cur, VRef):
                    cur = exe_.deref(st_, cur)
                add = args[1]
                if isinstance(add, VAgg) and add.variant == "Some":
                    add = VVec([add.fields[0]])
                elif isinstance(add, VAgg) and add.variant == "None":
                    add = VVec([])
                if isinstance(cur, VVec) and isinstance(add, VVec):
                    exe_.write_ref(st_, dst, [], VVec(list(cur.elems) + list(add.elems)), None)
                    return [(st_, VUnit())]
                return None
            if re.search(r"^RenderTable::new$", c):
                return [(st_, VAgg("RenderTableModel", None, [args[0]]))]
            if re.search(r"RenderNode::is_shallow_empty$", c):
                i = kid_index(exe_, st_, args[0])
                if i is not None and i in empties:
                    return [(st_, empties[i])]
                return None
            return orig(exe_, st_, f_, bb_, callee, args, dest_ty)
        summaries.summarize = summ
        try:
            outs = exe.run(f.name, {1: env, 2: VRef("val", VOpaque("HtmlContext", "ctx")), 3: VVec(kids)}, st)
        finally:
            summaries.summarize = orig
        total += len(outs)
        if not outs:
            raise Inconclusive("no path returned")
        want_rows = []
        for i, k in enumerate(shape):
            if k == "B":
                want_rows += ["g%dr0" % i, "g%dr1" % i]

        def info_of(node):
            return node.fields[node.names.index("info")] if isinstance(node, VAgg) and node.names and "info" in node.names else None

        def rows_of(info):
            if isinstance(info, VAgg) and info.variant == "Table":
                t = info.fields[0]
                rows = t.fields[0] if isinstance(t, VAgg) and t.path == "RenderTableModel" else None
                if isinstance(rows, VVec):
                    return [getattr(r, "name", "?") for r in rows.elems]
            return None
        for (s2, ret) in outs:
            got_rows = None
            kept = []        # indices of non-row-group children present in the result, in order
            table_last = True
            if isinstance(ret, VAgg) and ret.variant == "None":
                got_rows = []
            elif isinstance(ret, VAgg) and ret.variant == "Some":
                info = info_of(ret.fields[0])
                got_rows = rows_of(info)
                if got_rows is None and isinstance(info, VAgg) and info.variant == "Container" and isinstance(info.fields[0], VVec):
                    got_rows = []
                    elems = list(info.fields[0].elems)
                    for pos, el in enumerate(elems):
                        r_ = rows_of(info_of(el))
                        if r_ is not None:
                            got_rows = r_
                            table_last = table_last and pos == len(elems) - 1
                        else:
                            i = kid_index(exe, s2, el)
                            kept.append(i)
            if got_rows is None:
                raise Inconclusive("table node not recovered")
            post(exe, s2, z3.BoolVal(got_rows == want_rows), f.name, "table %s: the rows of every row group are kept, in order (got %s)" % ("".join(shape) or "-", got_rows))
            post(exe, s2, z3.BoolVal(table_last and kept == sorted(x for x in kept if x is not None) and None not in kept), f.name,
                 "table %s: kept children stay in document order, before the table (%s)" % ("".join(shape), kept))
            for i, k in enumerate(shape):
                if k == "X":
                    post(exe, s2, z3.BoolVal(i in kept) == z3.Not(empties[i].e), f.name,
                         "table %s: a child that is not a row group is dropped only if it has no content" % "".join(shape))
    return {"function": f.name, "paths": total}

# ----------------------------------------------------------------------------
# SPEC: inline elements open before and close after their children, with the style pushed around both
# (do_render_node arms for text, containers, links, emphasis, strong, strikeout, code)
# ----------------------------------------------------------------------------

def _short_callee(name):
    n = name.strip()
    while n.endswith(">") and "::<" in n:
        n = n[:n.rindex("::<")]
    return re.sub(r".*::", "", n)


def spec_inline_arms_paired(ctx, make_exe):
    import summaries
    orig = summaries.summarize
    f = the(ctx.find(r"^do_render_node$"), "do_render_node")
    kinds = {"Text": (None, None), "Container": (None, None), "Link": ("start_link", "end_link"), "Em": ("start_emphasis", "end_emphasis"),
             "Strong": ("start_strong", "end_strong"), "Strikeout": ("start_strikeout", "end_strikeout"), "Code": ("start_code", "end_code")}
    total = 0
    for kind, (start_nm, end_nm) in kinds.items():
        exe = make_exe(loop_bound=6)
        st = State()
        kids = VVec([VOpaque("RenderNode", "child0"), VOpaque("RenderNode", "child1")])
        if kind == "Text":
            info = VAgg("RenderNodeInfo::Text", "Text", [VOpaque("String", "text")])
        elif kind == "Link":
            info = VAgg("RenderNodeInfo::Link", "Link", [VOpaque("String", "href"), kids])
        else:
            info = VAgg("RenderNodeInfo::" + kind, kind, [kids])
        node = _agg(ctx, "RenderNode", info=info, style=VOpaque("ComputedStyle", "style"),
                    size_estimate=VAgg("Cell", None, [VAgg("Option::None", "None", [])]))
        pend = []

        def nm(exe_, st_, v):
            while isinstance(v, VRef):
                v = exe_.deref(st_, v)
            return getattr(v, "name", None)

        def summ(exe_, st_, f_, bb_, callee, args, dest_ty):
            c = callee.strip()
            if re.search(r"PushedStyleInfo::apply", c):
                return [(st_, VOpaque("PushedStyleInfo", "pushed:" + str(nm(exe_, st_, args[1]))))]
            if re.search(r"PushedStyleInfo::unwind", c):
                return [(st_, VUnit())]
            if re.search(r"TextRenderer::<D>::(start|end)_link$", c) or re.search(r"as Renderer>::(start|end)_\w+$", c) \
                    or re.search(r"as Renderer>::add_inline_text$", c):
                ok = st_.clone()
                err = st_.clone()
                return [(ok, VAgg("Result::Ok", "Ok", [VUnit()])), (err, VAgg("Result::Err", "Err", [VAgg("TooNarrow", "TooNarrow", [])]))]
            if re.search(r"^<String as Deref>::deref$", c):
                return [(st_, VRef("val", VOpaque("str", "str:" + str(nm(exe_, st_, args[0])))))]
            if re.search(r"^pending2::<", c):
                pend.append((st_.clone(), args[0], args[1]))
                return [(st_, VAgg("TreeMapResultModel", None, [args[0], args[1]]))]
            return orig(exe_, st_, f_, bb_, callee, args, dest_ty)
        summaries.summarize = summ
        try:
            outs = exe.run(f.name, {1: VRef("val", VOpaque("TextRenderer<D>", "renderer")), 2: node, 3: VRef("val", VOpaque("T", "err_out"))}, st)
            results = []
            for (s2, ret) in outs:
                ok = isinstance(ret, VAgg) and ret.variant == "Ok"
                calls = [c for c in s2.calls if c[2] == f.name]
                seq = [x for x in (_short_callee(c[0]) for c in calls) if re.match(r"(start_|end_|apply$|unwind$|add_inline_text$)", x)]
                if not ok:
                    results.append((s2, ret, seq, None))
                    continue
                tm = ret.fields[0]
                after = None
                if isinstance(tm, VAgg) and tm.path == "TreeMapResultModel":
                    # run the closure that is to be called after the children
                    clos = tm.fields[1]
                    n0 = len(s2.calls)
                    couts = exe.call_closure(s2, clos, [VRef("val", VOpaque("TextRenderer<D>", "renderer")), VVec([])])
                    after = [(s3, r3, [x for x in (_short_callee(c[0]) for c in s3.calls[n0:]) if re.match(r"(start_|end_|apply$|unwind$|add_inline_text$)", x)]) for (s3, r3) in couts]
                results.append((s2, ret, seq, after))
        finally:
            summaries.summarize = orig
        total += len(outs)
        if not outs:
            raise Inconclusive("no path returned for %s" % kind)
        n_ok = 0
        for (s2, ret, seq, after) in results:
            opens = [x for x in seq if x.startswith("start_")]
            if not (isinstance(ret, VAgg) and ret.variant == "Ok"):
                post(exe, s2, z3.BoolVal("unwind" not in seq or True), f.name, "%s: an error is passed on" % kind)
                continue
            n_ok += 1
            tm = ret.fields[0]
            if kind == "Text":
                post(exe, s2, z3.BoolVal(seq.count("add_inline_text") == 1 and seq.index("apply") < seq.index("add_inline_text") < seq.index("unwind")), f.name,
                     "Text: the text is added once, between pushing and unwinding the node's style (%s)" % seq)
                post(exe, s2, z3.BoolVal(isinstance(tm, VAgg) and tm.variant == "Finished"), f.name, "Text: finished without children")
                continue
            post(exe, s2, z3.BoolVal(opens == ([start_nm] if start_nm else [])), f.name, "%s: opened exactly once before its children (%s)" % (kind, opens))
            post(exe, s2, z3.BoolVal("apply" in seq and (not start_nm or seq.index("apply") < seq.index(start_nm))), f.name, "%s: the node's style is pushed before it is opened" % kind)
            post(exe, s2, z3.BoolVal("unwind" not in seq and not any(x.startswith("end_") for x in seq)), f.name, "%s: nothing is closed before the children are rendered" % kind)
            okk = isinstance(tm, VAgg) and tm.path == "TreeMapResultModel" and isinstance(tm.fields[0], VVec) \
                and [getattr(x, "name", "?") for x in tm.fields[0].elems] == ["child0", "child1"]
            post(exe, s2, z3.BoolVal(bool(okk)), f.name, "%s: all children are rendered, in order" % kind)
            if after is None:
                continue
            for (s3, r3, seq3) in after:
                if isinstance(r3, VAgg) and r3.variant == "Ok":
                    want = ([end_nm] if end_nm else []) + ["unwind"]
                    post(exe, s3, z3.BoolVal(seq3 == want), f.name, "%s: after the children it is closed once and then the style is unwound (%s)" % (kind, seq3))
        if not n_ok:
            raise Inconclusive("no successful path for %s" % kind)
    return {"function": f.name, "paths": total}

# ----------------------------------------------------------------------------
# SPEC: an unknown at-rule is skipped up to its ';' or the end of its own {}-block, whatever brackets its prelude holds
# ----------------------------------------------------------------------------

def spec_at_rule_skip(ctx, make_exe):
    import summaries
    orig = summaries.summarize
    f = the(ctx.find(r"^skip_to_end_of_statement$"), "css::parser::skip_to_end_of_statement")
    names = ctx.enums.get("parser::Token") or ctx.enums.get("Token")
    if not names:
        raise Inconclusive("Token enum not recovered")
    KINDS = ["Ident", "OpenRound", "CloseRound", "OpenSquare", "CloseSquare", "OpenBrace", "CloseBrace", "Semicolon"]
    idx = {k: names.index(k) for k in KINDS}
    N = 4 if ctx.tier != "thorough" else 5
    exe = make_exe(loop_bound=N + 3)
    st = State()
    toks = [VOpaque("css::parser::Token<'_>", "tok%d" % i) for i in range(N)]
    ds = [exe.discriminant(t).e for t in toks]
    for d in ds:
        st.pc.append(z3.Or(*[d == idx[k] for k in KINDS]))

    def pos_of(exe_, st_, v):
        while isinstance(v, VRef):
            v = exe_.deref(st_, v)
        if isinstance(v, VAgg) and v.path == "Pos":
            return v.fields[0]
        if isinstance(v, VOpaque) and v.name == "input":
            return 0
        return None

    def tokval(exe_, st_, v):
        while isinstance(v, VRef):
            v = exe_.deref(st_, v)
        return v

    def summ(exe_, st_, f_, bb_, callee, args, dest_ty):
        c = callee.strip()
        if re.search(r"^parse_token$", c):
            k = pos_of(exe_, st_, args[0])
            if k is None:
                return None
            if k >= N:
                return [(st_, VAgg("Result::Err", "Err", [VOpaque("nom::Err", "eof")]))]
            return [(st_, VAgg("Result::Ok", "Ok", [VAgg("tuple", None, [VRef("val", VAgg("Pos", None, [k + 1])), toks[k]])]))]
        if re.search(r"^<parser::Token<'_> as PartialEq>::eq$", c):
            a, b = tokval(exe_, st_, args[0]), tokval(exe_, st_, args[1])
            unit = lambda v: isinstance(v, VAgg) and v.variant in names and not v.fields
            if unit(a) or unit(b):
                return [(st_, VBool(exe_.discriminant(a).e == exe_.discriminant(b).e))]
            return None
        if re.search(r"^<Option<&parser::Token<'_>> as PartialEq>::eq$", c):
            a, b = tokval(exe_, st_, args[0]), tokval(exe_, st_, args[1])
            if isinstance(a, VAgg) and isinstance(b, VAgg) and a.variant in ("Some", "None") and b.variant in ("Some", "None"):
                if a.variant != b.variant:
                    return [(st_, VBool(z3.BoolVal(False)))]
                if a.variant == "None":
                    return [(st_, VBool(z3.BoolVal(True)))]
                x, y = tokval(exe_, st_, a.fields[0]), tokval(exe_, st_, b.fields[0])
                unit = lambda v: isinstance(v, VAgg) and v.variant in names and not v.fields
                if unit(x) or unit(y):
                    return [(st_, VBool(exe_.discriminant(x).e == exe_.discriminant(y).e))]
            return None
        if re.search(r"^fail::<", c):
            return [(st_, VAgg("Result::Err", "Err", [VOpaque("nom::Err", "fail")]))]
        return orig(exe_, st_, f_, bb_, callee, args, dest_ty)
    summaries.summarize = summ
    try:
        outs = exe.run(f.name, {1: VRef("val", VOpaque("str", "input"))}, st)
    finally:
        summaries.summarize = orig
    if not outs:
        raise Inconclusive("no path returned")
    # reference: the statement ends after a ';' at depth 0, after the '}' that closes its own block, before a '}' at
    # depth 0, at the end of the input; a closer that does not match the innermost opener is an error
    FAIL = N + 10
    closer = {"OpenRound": "CloseRound", "OpenSquare": "CloseSquare", "OpenBrace": "CloseBrace"}
    memo = {}

    def ref(pos, stack):
        key = (pos, stack)
        if key in memo:
            return memo[key]
        if pos >= N:
            r = z3.IntVal(N)
        else:
            d = ds[pos]
            branches = []
            for k in KINDS:
                if k == "Ident":
                    v = ref(pos + 1, stack)
                elif k in closer:
                    v = ref(pos + 1, stack + (closer[k],))
                elif k == "Semicolon":
                    v = z3.IntVal(pos + 1) if not stack else ref(pos + 1, stack)
                elif k == "CloseBrace" and not stack:
                    v = z3.IntVal(pos)
                else:   # a closing bracket
                    if stack and stack[-1] == k:
                        rest = stack[:-1]
                        v = z3.IntVal(pos + 1) if (k == "CloseBrace" and not rest) else ref(pos + 1, rest)
                    else:
                        v = z3.IntVal(FAIL)
                branches.append((d == idx[k], v))
            r = branches[-1][1]
            for cond, v in reversed(branches[:-1]):
                r = z3.If(cond, v, r)
        memo[key] = r
        return r
    want = ref(0, ())
    for (s2, ret) in outs:
        if isinstance(ret, VAgg) and ret.variant == "Ok":
            tup = ret.fields[0]
            k = pos_of(exe, s2, tup.fields[0]) if isinstance(tup, VAgg) and tup.fields else None
            if k is None:
                raise Inconclusive("end position not recovered")
            post(exe, s2, want == z3.IntVal(k), f.name, "the skipped statement ends where its ';' or its own {}-block ends (position %d of %d tokens)" % (k, N))
        elif isinstance(ret, VAgg) and ret.variant == "Err":
            post(exe, s2, want == z3.IntVal(FAIL), f.name, "skipping fails only on a closing bracket that does not match")
        else:
            raise Inconclusive("result shape not recovered")
    return {"function": f.name, "paths": len(outs), "tokens": N}

# ----------------------------------------------------------------------------
# SPEC: an element whose computed display is none contributes nothing at all (process_dom_node, element arm prologue)
# ----------------------------------------------------------------------------

def spec_hidden_element_nothing(ctx, make_exe):
    import summaries
    orig = summaries.summarize
    f = the(ctx.find(r"^process_dom_node$"), "process_dom_node")
    ctx.enums.setdefault("NodeData", ["Document", "Doctype", "Text", "Comment", "Element", "ProcessingInstruction"])
    stop = set(n for n in f.order if re.search(r"QualName::expanded\(", " ".join(f.blocks[n].raw)) and not f.blocks[n].cleanup)
    if not stop:
        raise Inconclusive("the element-name dispatch of process_dom_node was not located")
    exe = make_exe(loop_bound=6)
    st = State()
    node = VAgg("Node", None, [VOpaque("Cell", "parent"), VOpaque("RefCell", "children"),
                               VAgg("NodeData::Element", "Element", [VOpaque("QualName", "elname"), VOpaque("RefCell<Vec<Attribute>>", "attrcell"),
                                                                     VOpaque("RefCell", "tc"), VOpaque("bool", "mx")])])
    inp = _agg(ctx, "RenderInput", handle=VOpaque("Rc<Node>", "handle"), parent_style=VOpaque("Rc<ComputedStyle>", "parent_style"))
    hidden = exe.fresh("bool", "display_is_none")

    def summ(exe_, st_, f_, bb_, callee, args, dest_ty):
        c = callee.strip()
        if re.search(r"^<Rc<Node> as Clone>::clone$", c):
            return [(st_, VOpaque("Rc<Node>", "handle_clone"))]
        if re.search(r"^<Rc<Node> as Deref>::deref$", c):
            return [(st_, VRef("val", node))]
        if re.search(r"^<Rc<ComputedStyle> as Deref>::deref$", c):
            return [(st_, VRef("val", VOpaque("ComputedStyle", "parent")))]
        if re.search(r"StyleData::computed_style$", c):
            return [(st_, VOpaque("ComputedStyle", "computed"))]
        if re.search(r"WithSpec::<css::Display>::val$", c):
            yes = st_.clone()
            yes.pc.append(hidden.e)
            no = st_.clone()
            no.pc.append(z3.Not(hidden.e))
            return [(yes, VAgg("Option::Some", "Some", [VRef("val", VAgg("css::Display::None", "None", []))])),
                    (no, VAgg("Option::None", "None", []))]
        return orig(exe_, st_, f_, bb_, callee, args, dest_ty)
    summaries.summarize = summ
    try:
        outs = exe.run(f.name, {1: inp, 2: VOpaque("&mut T", "err_out"), 3: VRef("val", VOpaque("HtmlContext", "context"))}, st, stop_at=stop)
    finally:
        summaries.summarize = orig
    if not outs:
        raise Inconclusive("no path returned")
    n_hidden = n_shown = 0
    for (s2, ret) in outs:
        calls = [_short_callee(c[0]) for c in s2.calls if c[2] == f.name]
        if isinstance(ret, tuple) and ret[0] == "stopped":
            n_shown += 1
            post(exe, s2, z3.Not(hidden.e), f.name, "an element is converted (reaches the dispatch on its name) only when it is not hidden")
            continue
        n_hidden += 1
        ok = isinstance(ret, VAgg) and ret.variant == "Ok" and isinstance(ret.fields[0], VAgg) and ret.fields[0].variant == "Nothing"
        post(exe, s2, hidden.e, f.name, "an element is skipped before the dispatch on its name only when its computed display is none")
        post(exe, s2, z3.BoolVal(bool(ok)), f.name, "a hidden element yields nothing")
        bad = [c for c in calls if re.match(r"(pending|pending_noempty|insert_child|new|new_styled|borrow)$", c)]
        post(exe, s2, z3.BoolVal(not bad), f.name, "a hidden element contributes no node, marker or child (calls: %s)" % bad)
    if not n_shown:
        raise Inconclusive("no path reaches the dispatch on the element name")
    # (when no path skips a hidden element, the first postcondition above has already failed)
    return {"function": f.name, "paths": len(outs)}

# ----------------------------------------------------------------------------
# SPEC: whitespace (and comments, which skip_optional_whitespace also skips) is allowed between any two syntactic
# elements of a rule set: the parser sequence parse_ruleset hands to nom::sequence::tuple has a
# skip_optional_whitespace between every two other parsers, and is `{` rules `;`? `}` in that order.
# ----------------------------------------------------------------------------

def spec_ruleset_whitespace(ctx, make_exe):
    import summaries
    orig = summaries.summarize
    f = the(ctx.find(r"^parse_ruleset$"), "css::parser::parse_ruleset")
    exe = make_exe(loop_bound=6)
    st = State()
    seqs = []

    def label(v):
        while isinstance(v, VRef):
            v = None
        n = getattr(v, "name", "") or ""
        if n.startswith("const:"):
            m_ = re.search(r"(skip_optional_whitespace|parse_rules|parse_selector)\s*$", n) or re.search(r"\{(?:css::parser::)?(\w+)\}\s*$", n)
            return m_.group(1) if m_ else n[6:]
        return n

    def summ(exe_, st_, f_, bb_, callee, args, dest_ty):
        c = callee.strip()
        if re.search(r"(^|::)tag::<", c):
            return [(st_, VOpaque("parser", "tag:" + (getattr(args[0], "name", "?") or "?").replace("const:", "")))]
        if re.search(r"(^|::)opt::<", c):
            return [(st_, VOpaque("parser", "opt:" + label(args[0])))]
        if re.search(r"(^|::)tuple::<", c):
            t = args[0]
            if isinstance(t, VAgg):
                seqs.append([label(x) for x in t.fields])
            return [(st_, VOpaque("parser", "tuple%d" % len(seqs)))]
        if re.search(r"(^|::)separated_list0::<", c):
            return [(st_, VOpaque("parser", "separated_list"))]
        return orig(exe_, st_, f_, bb_, callee, args, dest_ty)
    summaries.summarize = summ
    try:
        try:
            outs = exe.run(f.name, {1: VRef("val", VOpaque("str", "text"))}, st)
        except PathEnd as e:
            outs = []
            if os.environ.get("MIRSYM_DEBUG"):
                print("PathEnd", e)
    finally:
        summaries.summarize = orig
    body = [q for q in seqs if any(x.startswith("tag:") and "{" in x for x in q)]
    if len(body) != 1:
        raise Inconclusive("the parser sequence of a rule set's block was not recovered (%s)" % seqs)
    seq = body[0]
    core = [x for x in seq if x != "skip_optional_whitespace"]
    post(exe, st, z3.BoolVal(core == ['tag:"{"', "parse_rules", 'opt:tag:";"', 'tag:"}"']), f.name,
         "a rule set's block is `{` declarations, an optional `;`, `}` (got %s)" % core)
    gaps = all(seq[i] == "skip_optional_whitespace" or seq[i + 1] == "skip_optional_whitespace" for i in range(len(seq) - 1))
    post(exe, st, z3.BoolVal(bool(gaps) and seq and seq[0] == "skip_optional_whitespace" and seq[-1] == "skip_optional_whitespace"), f.name,
         "whitespace and comments are skipped before, between and after all elements of a rule set's block (%s)" % seq)
    return {"function": f.name, "paths": len(outs), "sequence": seq}

# ----------------------------------------------------------------------------
# SPEC: the string route and the lines route end on the same list of lines: SubRenderer::into_lines returns exactly
# the renderer's lines after flush_wrapping, and SubRenderer::into_string prints exactly those lines after the same
# flush_wrapping - neither adds, drops or reorders a line on its own.
# ----------------------------------------------------------------------------

def spec_routes_same_lines(ctx, make_exe):
    import summaries
    orig = summaries.summarize
    fl = the([g for g in ctx.find(r"::into_lines$") if g.args and "SubRenderer" in g.args[0][1]], "SubRenderer::into_lines")
    fs = the([g for g in ctx.find(r"::into_string$") if g.args and "SubRenderer" in g.args[0][1]], "SubRenderer::into_string")
    total = 0
    mutators = re.compile(r"(add_line|add_empty_line|push_back|push_front|push|append|extend|insert|pop_back|pop_front|pop|clear|split_off|retain|remove|drain|truncate)(::<.*>)?$")
    for f in (fl, fs):
        exe = make_exe(loop_bound=6)
        st = State()
        lines = VVec([VOpaque("RenderLine", "line0"), VOpaque("RenderLine", "line1")]) if f is fs else VOpaque("LinkedList<RenderLine>", "the_lines")
        sub = _agg(ctx, "SubRenderer", lines=lines)

        def summ(exe_, st_, f_, bb_, callee, args, dest_ty):
            c = callee.strip()
            if re.search(r"SubRenderer::<D>::flush_wrapping$", c):
                ok = st_.clone()
                err = st_.clone()
                return [(ok, VAgg("Result::Ok", "Ok", [VUnit()])), (err, VAgg("Result::Err", "Err", [VAgg("TooNarrow", "TooNarrow", [])]))]
            if re.search(r"RenderLine::<.*>::to_string$", c):
                v = args[0]
                while isinstance(v, VRef):
                    v = exe_.deref(st_, v)
                st_.calls.append(("printed", [getattr(v, "name", "?")], f_.name, bb_))
                return [(st_, VOpaque("String", "text_of_" + getattr(v, "name", "?")))]
            if re.search(r"^<&LinkedList<.*> as IntoIterator>::into_iter$|LinkedList::<.*>::iter$", c):
                v = args[0]
                while isinstance(v, VRef):
                    v = exe_.deref(st_, v)
                if isinstance(v, VVec):
                    return [(st_, VIter("vec", v, 0))]
                return None
            if re.search(r"^<std::collections::linked_list::Iter<'_, .*> as Iterator>::next$", c):
                it = args[0]
                while isinstance(it, VRef):
                    it_ref = it
                    it = exe_.deref(st_, it)
                if isinstance(it, VIter) and isinstance(it.src, VVec):
                    if it.pos < len(it.src.elems):
                        el = it.src.elems[it.pos]
                        exe_.write_ref(st_, it_ref, [], VIter("vec", it.src, it.pos + 1), None)
                        return [(st_, VAgg("Option::Some", "Some", [VRef("val", el)]))]
                    return [(st_, VAgg("Option::None", "None", []))]
                return None
            if re.search(r"^String::push_str$", c):
                v = args[1]
                while isinstance(v, VRef):
                    v = exe_.deref(st_, v)
                st_.calls.append(("appended", [getattr(v, "name", "?")], f_.name, bb_))
                return [(st_, VUnit())]
            if re.search(r"^String::push$", c):
                e = z3.simplify(args[1].e) if hasattr(args[1], "e") else None
                st_.calls.append(("appended", ["char:%s" % (e.as_long() if e is not None and z3.is_bv_value(e) else "?")], f_.name, bb_))
                return [(st_, VUnit())]
            if re.search(r"^<String as Deref>::deref$", c):
                return [(st_, args[0])]
            return orig(exe_, st_, f_, bb_, callee, args, dest_ty)
        summaries.summarize = summ
        try:
            try:
                outs = exe.run(f.name, {1: sub}, st)
            except PathEnd as e:
                raise Inconclusive("%s: %s" % (f.name[-20:], e))
        finally:
            summaries.summarize = orig
        if not outs:
            raise Inconclusive("%s: no path returned" % f.name[-20:])
        total += len(outs)
        n_ok = 0
        for (s2, ret) in outs:
            mine = [c for c in s2.calls if c[2] == f.name]
            flushes = [c for c in mine if re.search(r"flush_wrapping$", c[0])]
            first_out = next((i for i, c in enumerate(s2.calls) if c[0] in ("printed", "appended")), len(s2.calls))
            before = len(flushes) == 1 and s2.calls.index(flushes[0]) < first_out
            post(exe, s2, z3.BoolVal(bool(before)), f.name, "%s flushes the pending text exactly once, before it reads the lines" % ("into_lines" if f is fl else "into_string"))
            if not (isinstance(ret, VAgg) and ret.variant == "Ok"):
                continue
            n_ok += 1
            if f is fl:
                touched = [_short_callee(c[0]) for c in mine if mutators.search(_short_callee(c[0])) and c[0] not in ("printed", "appended")]
                post(exe, s2, z3.BoolVal(not touched), f.name, "into_lines adds or removes no line of its own (calls: %s)" % touched)
                post(exe, s2, z3.BoolVal(getattr(ret.fields[0], "name", None) == "the_lines"), f.name, "into_lines returns the renderer's lines")
            else:
                printed = [c[1][0] for c in s2.calls if c[0] == "printed"]
                appended = [c[1][0] for c in s2.calls if c[0] == "appended"]
                post(exe, s2, z3.BoolVal(printed == ["line0", "line1"]), f.name, "into_string prints every line once, in order (%s)" % printed)
                post(exe, s2, z3.BoolVal(appended == ["text_of_line0", "char:10", "text_of_line1", "char:10"]), f.name,
                     "into_string is the lines' texts, each followed by a newline (%s)" % appended)
        if not n_ok:
            raise Inconclusive("%s: no successful path" % f.name[-20:])
    return {"function": fl.name, "paths": total}

# ----------------------------------------------------------------------------
# SPEC: an element with an id yields its fragment marker whatever the element converts to (process_dom_node, the code
# after the dispatch): nothing -> the marker alone; a finished node -> the marker inserted at its start; pending
# children -> the same children and hooks, and a constructor that puts the marker at the start of whatever the
# element's own constructor builds, or returns the marker alone when that builds nothing.  Without an id (or name on
# <a>) the result of the dispatch is returned unchanged.
# ----------------------------------------------------------------------------

def spec_frag_from_id(ctx, make_exe):
    import summaries
    orig = summaries.summarize
    f = the(ctx.find(r"^process_dom_node$"), "process_dom_node")
    ctx.enums.setdefault("NodeData", ["Document", "Doctype", "Text", "Comment", "Element", "ProcessingInstruction"])
    total = 0
    for name, kind in (("hr", "nothing"), ("br", "finished"), ("em", "pending"), ("div", "pending")):
        exe = make_exe(loop_bound=6, inline=[r"RenderNode::new_styled$", r"RenderNode::new$"])
        st = State()

        def atom(v):
            return VAgg("Atom", None, [VAgg("NonZero", None, [VAgg("Inner", None, [v])])])
        ns = VInt(u64(HTML_NS_ATOM), 64, False)
        ln = VInt(u64(_inline_atom(name)), 64, False)
        node = VAgg("Node", None, [VOpaque("Cell", "parent"), VOpaque("RefCell", "children"),
                                   VAgg("NodeData::Element", "Element", [VOpaque("QualName", "elname"), VOpaque("RefCell<Vec<Attribute>>", "attrcell"),
                                                                         VOpaque("RefCell", "tc"), VOpaque("bool", "mx")])])
        inp = _agg(ctx, "RenderInput", handle=VOpaque("Rc<Node>", "handle"), parent_style=VOpaque("Rc<ComputedStyle>", "parent_style"))
        attrs = VVec([VOpaque("Attribute", "attr0")])
        is_id = exe.fresh("bool", "attr_is_id")
        inner_cons = VOpaque("Box<dyn FnOnce>", "element_cons")
        kids = VOpaque("Vec<RenderInput>", "element_children")
        pend = VAgg("TreeMapResult::PendingChildren", "PendingChildren", [kids, inner_cons, VOpaque("Option<prefn>", "element_prefn"), VOpaque("Option<postfn>", "element_postfn")])

        def summ(exe_, st_, f_, bb_, callee, args, dest_ty):
            c = callee.strip()
            if re.search(r"^<Rc<Node> as Clone>::clone$", c):
                return [(st_, VOpaque("Rc<Node>", "handle_clone"))]
            if re.search(r"^<Rc<Node> as Deref>::deref$", c):
                return [(st_, VRef("val", node))]
            if re.search(r"^<Rc<ComputedStyle> as Deref>::deref$", c):
                return [(st_, VRef("val", VOpaque("ComputedStyle", "parent")))]
            if re.search(r"StyleData::computed_style$", c):
                return [(st_, VOpaque("ComputedStyle", "computed"))]
            if re.search(r"WithSpec::<css::Display>::val$", c):
                return [(st_, VAgg("Option::None", "None", []))]
            if re.search(r"RefCell::<Vec<Attribute>>::borrow$", c):
                return [(st_, VRef("val", attrs))]
            if re.search(r"^<Ref<'_, Vec<Attribute>> as Deref>::deref$", c) or re.search(r"^<Vec<Attribute> as Deref>::deref$", c):
                return [(st_, args[0])]
            if re.search(r"^Option::<Box<ComputedStyle>>::is_some$", c):
                return [(st_, VBool(z3.BoolVal(False)))]
            if re.search(r"QualName::expanded$", c):
                return [(st_, VAgg("ExpandedName", None, [VRef("val", atom(ns)), VRef("val", atom(ln))]))]
            if re.search(r"Atom<LocalNameStaticSet> as PartialEq<&str>>::eq$", c):
                return [(st_, is_id)]
            if re.search(r"^pending(_noempty)?::<", c):
                return [(st_, pend)]
            if re.search(r"<Tendril<UTF8> as ToString>::to_string$", c):
                return [(st_, VOpaque("String", "fragname"))]
            if re.search(r"^insert_child$", c):
                st_.calls.append(("inserted", list(args), f_.name, bb_))
                return [(st_, VOpaque("RenderNode", "with_marker"))]
            return orig(exe_, st_, f_, bb_, callee, args, dest_ty)

        def is_marker(v):
            if isinstance(v, VAgg) and v.names and "info" in v.names:
                inf = v.fields[v.names.index("info")]
                return isinstance(inf, VAgg) and inf.variant == "FragStart" and getattr(inf.fields[0], "name", None) == "fragname"
            return False

        def at_start(v):
            return isinstance(v, VAgg) and v.variant == "Start"
        summaries.summarize = summ
        try:
            try:
                outs = exe.run(f.name, {1: inp, 2: VOpaque("&mut T", "err_out"), 3: VRef("val", VOpaque("HtmlContext", "context"))}, st)
                total += len(outs)
                if len(outs) < 2:
                    raise Inconclusive("<%s>: expected a path with and one without an id" % name)
                for (s2, ret) in outs:
                    if not (isinstance(ret, VAgg) and ret.variant == "Ok"):
                        raise Inconclusive("<%s>: process_dom_node failed" % name)
                    tm = ret.fields[0]
                    has_marker_call = any(cl[0] == "inserted" for cl in s2.calls)
                    if kind == "nothing":
                        if isinstance(tm, VAgg) and tm.variant == "Nothing":
                            post(exe, s2, z3.Not(is_id.e), f.name, "<%s id>: an element that converts to nothing still yields its marker" % name)
                        else:
                            ok = isinstance(tm, VAgg) and tm.variant == "Finished" and is_marker(tm.fields[0])
                            post(exe, s2, z3.BoolVal(bool(ok)), f.name, "<%s id>: the result is the marker alone" % name)
                            post(exe, s2, is_id.e, f.name, "<%s>: a marker only when there is an id" % name)
                    elif kind == "finished":
                        ins = [cl[1] for cl in s2.calls if cl[0] == "inserted"]
                        if not ins:
                            post(exe, s2, z3.Not(is_id.e), f.name, "<%s id>: a finished node gets its marker" % name)
                            post(exe, s2, z3.BoolVal(isinstance(tm, VAgg) and tm.variant == "Finished"), f.name, "<%s>: finished without children" % name)
                        else:
                            post(exe, s2, is_id.e, f.name, "<%s>: a marker only when there is an id" % name)
                            ok = len(ins) == 1 and is_marker(ins[0][0]) and at_start(ins[0][2]) and isinstance(tm, VAgg) and tm.variant == "Finished" \
                                and getattr(tm.fields[0], "name", None) == "with_marker"
                            post(exe, s2, z3.BoolVal(bool(ok)), f.name, "<%s id>: the marker is inserted at the start of the node, once" % name)
                    else:
                        if tm is pend:
                            post(exe, s2, z3.Not(is_id.e), f.name, "<%s id>: an element with children gets its marker" % name)
                            continue
                        post(exe, s2, is_id.e, f.name, "<%s>: the constructor is wrapped only when there is an id" % name)
                        okp = isinstance(tm, VAgg) and (tm.variant == "PendingChildren" or (tm.path or "").endswith("PendingChildren")) and len(tm.fields) == 4
                        post(exe, s2, z3.BoolVal(bool(okp)), f.name, "<%s id>: still pending its children" % name)
                        if not okp:
                            continue
                        post(exe, s2, z3.BoolVal(tm.fields[0] is kids and getattr(tm.fields[2], "name", None) == "element_prefn" and getattr(tm.fields[3], "name", None) == "element_postfn"),
                             f.name, "<%s id>: the children and the hooks are the element's own" % name)
                        wrapper = _unbox(tm.fields[1])
                        # run the wrapping constructor over the three things the element's own constructor can answer
                        for inner_kind in ("none", "some", "err"):
                            def summ2(exe_, st_, f_, bb_, callee, args, dest_ty, inner_kind=inner_kind):
                                c = callee.strip()
                                if re.search(r"as FnOnce<.*>>::call_once$", c):
                                    tgt = args[0]
                                    if getattr(tgt, "name", None) != "element_cons":
                                        st_.calls.append(("wrong_cons", [], f_.name, bb_))
                                    if inner_kind == "none":
                                        return [(st_, VAgg("Result::Ok", "Ok", [VAgg("Option::None", "None", [])]))]
                                    if inner_kind == "some":
                                        return [(st_, VAgg("Result::Ok", "Ok", [VAgg("Option::Some", "Some", [VOpaque("RenderNode", "built")])]))]
                                    return [(st_, VAgg("Result::Err", "Err", [VOpaque("Error", "inner_error")]))]
                                return summ(exe_, st_, f_, bb_, callee, args, dest_ty)
                            summaries.summarize = summ2
                            n0 = len(s2.calls)
                            couts = exe.call_closure(s2.clone(), wrapper, [VRef("val", VOpaque("HtmlContext", "context")), VVec([VOpaque("RenderNode", "ch0")])])
                            summaries.summarize = summ
                            if not couts:
                                raise Inconclusive("<%s id>: the wrapping constructor returned on no path" % name)
                            for (s3, r3) in couts:
                                new = s3.calls[n0:]
                                post(exe, s3, z3.BoolVal(not any(cl[0] == "wrong_cons" for cl in new)), f.name, "<%s id>: the wrapper calls the element's own constructor" % name)
                                ins = [cl[1] for cl in new if cl[0] == "inserted"]
                                if inner_kind == "err":
                                    post(exe, s3, z3.BoolVal(isinstance(r3, VAgg) and r3.variant == "Err"), f.name, "<%s id>: an error of the constructor is passed on" % name)
                                elif inner_kind == "none":
                                    ok = isinstance(r3, VAgg) and r3.variant == "Ok" and isinstance(r3.fields[0], VAgg) and r3.fields[0].variant == "Some" and is_marker(r3.fields[0].fields[0])
                                    post(exe, s3, z3.BoolVal(bool(ok)), f.name, "<%s id>: when the element builds nothing the marker remains" % name)
                                else:
                                    ok = len(ins) == 1 and is_marker(ins[0][0]) and getattr(ins[0][1], "name", None) == "built" and at_start(ins[0][2]) \
                                        and isinstance(r3, VAgg) and r3.variant == "Ok" and isinstance(r3.fields[0], VAgg) and r3.fields[0].variant == "Some" \
                                        and getattr(r3.fields[0].fields[0], "name", None) == "with_marker"
                                    post(exe, s3, z3.BoolVal(bool(ok)), f.name, "<%s id>: the marker is inserted at the start of what the element builds" % name)
            except PathEnd as e:
                raise Inconclusive("<%s>: %s" % (name, e))
        finally:
            summaries.summarize = orig
    return {"function": f.name, "paths": total}

# ----------------------------------------------------------------------------
# SPEC: every <style> element of a document is a style sheet of its own: dom_to_stylesheet hands each extracted text
# to add_author_css separately, in document order, and carries on when one of them does not parse (malformed CSS in
# one element must not change what the others say: C17; a display:none rule in a later element still hides: C18).
# ----------------------------------------------------------------------------

def spec_doc_stylesheets_separate(ctx, make_exe):
    import summaries
    orig = summaries.summarize
    f = the(ctx.find(r"^dom_to_stylesheet$"), "css::dom_extract::dom_to_stylesheet")
    total = 0
    for n in (0, 1, 2, 3):
        exe = make_exe(loop_bound=8)
        st = State()
        sheets = [VOpaque("String", "sheet%d" % k) for k in range(n)]
        data = VOpaque("StyleData", "style_data")

        def who(exe_, st_, v):
            while isinstance(v, VRef):
                v = exe_.deref(st_, v)
            return getattr(v, "name", None)

        def summ(exe_, st_, f_, bb_, callee, args, dest_ty):
            c = callee.strip()
            if re.search(r"^tree_map_reduce::<", c):
                return [(st_, VAgg("Result::Ok", "Ok", [VAgg("Option::Some", "Some", [VVec(list(sheets))])]))]
            if re.search(r"<StyleData as Default>::default$", c):
                return [(st_, data)]
            if re.search(r"StyleData::add_author_css$", c):
                st_.calls.append(("sheet_added", [who(exe_, st_, args[1])], f_.name, bb_))
                ok = st_.clone()
                err = st_.clone()
                return [(ok, VAgg("Result::Ok", "Ok", [VUnit()])), (err, VAgg("Result::Err", "Err", [VOpaque("Error", "parse_error")]))]
            if re.search(r"<String as Deref>::deref$", c):
                return [(st_, VRef("val", VOpaque("str", str(who(exe_, st_, args[0])))))]
            return orig(exe_, st_, f_, bb_, callee, args, dest_ty)
        summaries.summarize = summ
        try:
            try:
                outs = exe.run(f.name, {1: VOpaque("Rc<Node>", "handle"), 2: VRef("val", VOpaque("T", "err_out"))}, st)
            except PathEnd as e:
                raise Inconclusive("dom_to_stylesheet: %s" % e)
        finally:
            summaries.summarize = orig
        if not outs:
            raise Inconclusive("dom_to_stylesheet: no path returned")
        total += len(outs)
        if len(outs) != 2 ** n:
            post(exe, outs[0][0], z3.BoolVal(False), f.name, "%d style elements: every combination of sheets that parse and sheets that do not is handled (%d ways, want %d)" % (n, len(outs), 2 ** n))
        for (s2, ret) in outs:
            added = [cl[1][0] for cl in s2.calls if cl[0] == "sheet_added"]
            post(exe, s2, z3.BoolVal(added == ["sheet%d" % k for k in range(n)]), f.name,
                 "%d style elements: each is added as a sheet of its own, in document order, whether or not the others parse (%s)" % (n, added))
            post(exe, s2, z3.BoolVal(isinstance(ret, VAgg) and ret.variant == "Ok"), f.name, "a style element that does not parse is not an error of the document")
    return {"function": f.name, "paths": total}

# ----------------------------------------------------------------------------
# SPEC: the Sup arm of do_render_node renders all its children, or - the digits shortcut - replaces a *single* text
# child by superscript characters; it never finishes without its children when there are several.
# ----------------------------------------------------------------------------

def spec_sup_children_kept(ctx, make_exe):
    import summaries
    orig = summaries.summarize
    f = the(ctx.find(r"^do_render_node$"), "do_render_node")
    total = 0
    for n in (1, 2, 3):
        exe = make_exe(loop_bound=6, inline=[r"sup_digits$"])
        st = State()
        kids = VVec([VOpaque("RenderNode", "child%d" % k) for k in range(n)])
        node = _agg(ctx, "RenderNode", info=VAgg("RenderNodeInfo::Sup", "Sup", [kids]), style=VOpaque("ComputedStyle", "style"),
                    size_estimate=VAgg("Cell", None, [VAgg("Option::None", "None", [])]))

        def summ(exe_, st_, f_, bb_, callee, args, dest_ty):
            c = callee.strip()
            if re.search(r"PushedStyleInfo::apply", c):
                return [(st_, VOpaque("PushedStyleInfo", "pushed"))]
            if re.search(r"PushedStyleInfo::unwind", c):
                return [(st_, VUnit())]
            if re.search(r"^pending2::<", c):
                return [(st_, VAgg("TreeMapResultModel", None, [args[0], args[1]]))]
            if re.search(r"<Chars<'_> as Iterator>::all::<", c):
                return [(st_, exe_.fresh("bool", exe_.fresh_name("all_digits")))]
            if re.search(r"core::str::<impl str>::(chars|bytes)$", c):
                return [(st_, VOpaque("Iter", exe_.fresh_name("iter")))]
            if re.search(r"<String as Deref>::deref$", c):
                return [(st_, VRef("val", VOpaque("str", exe_.fresh_name("str"))))]
            if re.search(r"as Iterator>::map::<|as Iterator>::collect::<String>$", c):
                return [(st_, VOpaque("String", exe_.fresh_name("digits")))]
            return orig(exe_, st_, f_, bb_, callee, args, dest_ty)
        summaries.summarize = summ
        try:
            try:
                outs = exe.run(f.name, {1: VRef("val", VOpaque("TextRenderer<D>", "renderer")), 2: node, 3: VRef("val", VOpaque("T", "err_out"))}, st)
            except PathEnd as e:
                raise Inconclusive("Sup arm: %s" % e)
        finally:
            summaries.summarize = orig
        if not outs:
            raise Inconclusive("Sup arm: no path returned")
        total += len(outs)
        n_pending = n_short = 0
        for (s2, ret) in outs:
            if not (isinstance(ret, VAgg) and ret.variant == "Ok"):
                continue
            tm = ret.fields[0]
            if isinstance(tm, VAgg) and tm.path == "TreeMapResultModel":
                n_pending += 1
                names = [getattr(x, "name", "?") for x in tm.fields[0].elems] if isinstance(tm.fields[0], VVec) else None
                post(exe, s2, z3.BoolVal(names == ["child%d" % k for k in range(n)]), f.name, "Sup with %d children: all children are rendered, in order (%s)" % (n, names))
            elif isinstance(tm, VAgg) and tm.variant == "Finished":
                n_short += 1
                post(exe, s2, z3.BoolVal(n == 1), f.name, "Sup with %d children: the digits shortcut replaces a single text child only" % n)
                adds = [c for c in s2.calls if c[2] == f.name and re.search(r"add_inline_text$", c[0])]
                post(exe, s2, z3.BoolVal(len(adds) == 1), f.name, "Sup: the shortcut emits its replacement text once")
            else:
                raise Inconclusive("Sup arm: result not recovered")
        if n_pending == 0:
            post(exe, st, z3.BoolVal(False), f.name, "Sup with %d children: no way through the arm renders the children" % n)
    return {"function": f.name, "paths": total}

# ----------------------------------------------------------------------------
# SPEC: a fragment marker that opens a text block opens the same block text would: as wide as min(wrap width, width)
# (record_frag_start; the block is created by whoever comes first, marker or text, so an id must not change the layout)
# ----------------------------------------------------------------------------

def spec_frag_block_width(ctx, make_exe):
    import summaries
    orig = summaries.summarize
    fs = [g for g in ctx.find(r"::record_frag_start$") if g.args and "SubRenderer" in g.args[0][1]]
    f = the(fs, "SubRenderer::record_frag_start")
    total = 0
    for has_max in (True, False):
        exe = make_exe(loop_bound=4, inline=[r"^get_wrapping_or_insert"])
        st = State()
        w = exe.fresh("usize", "width")
        mw = exe.fresh("usize", "max_wrap_width")
        ww = VAgg("Option::Some", "Some", [mw]) if has_max else VAgg("Option::None", "None", [])
        pad = exe.fresh("bool", "pad_block_width")
        ovf = exe.fresh("bool", "allow_width_overflow")
        opts = _agg(ctx, "RenderOptions", wrap_width=ww, pad_block_width=pad, allow_width_overflow=ovf)
        sub = _agg(ctx, "SubRenderer", width=w, options=opts, wrapping=VAgg("Option::None", "None", []))
        made = []

        def summ(exe_, st_, f_, bb_, callee, args, dest_ty, made=made):
            c = callee.strip()
            if re.search(r"Option::<WrappedBlock<.*>>::get_or_insert_with::<", c):
                outs_ = []
                for (s3, blk) in exe_.call_closure(st_, args[1], []):
                    outs_.append((s3, VRef("val", blk)))
                return outs_
            if re.search(r"WrappedBlock::<.*>::new$", c):
                st_.calls.append(("block_made", list(args), f_.name, bb_))
                return [(st_, VOpaque("WrappedBlock", exe_.fresh_name("block")))]
            if re.search(r"WrappedBlock::<.*>::add_element$", c):
                return [(st_, VUnit())]
            return orig(exe_, st_, f_, bb_, callee, args, dest_ty)
        summaries.summarize = summ
        try:
            try:
                outs = exe.run(f.name, {1: VRef("val", sub), 2: VRef("val", VOpaque("str", "fragname"))}, st)
            except PathEnd as e:
                raise Inconclusive("record_frag_start: %s" % e)
        finally:
            summaries.summarize = orig
        if not outs:
            raise Inconclusive("record_frag_start: no path returned")
        total += len(outs)
        for (s2, ret) in outs:
            blocks = [cl[1] for cl in s2.calls if cl[0] == "block_made"]
            post(exe, s2, z3.BoolVal(len(blocks) == 1), f.name, "a marker without an open block opens exactly one")
            if len(blocks) != 1:
                continue
            bw, bpad, bovf = blocks[0][0], blocks[0][1], blocks[0][2]
            want = z3.If(z3.ULT(mw.e, w.e), mw.e, w.e) if has_max else w.e
            post(exe, s2, bw.e == want if isinstance(bw, VInt) else z3.BoolVal(False), f.name,
                 "the block a marker opens is min(maximum wrap width, width) wide, like the block text opens")
            post(exe, s2, z3.And(bpad.e == pad.e, bovf.e == ovf.e) if isinstance(bpad, VBool) and isinstance(bovf, VBool) else z3.BoolVal(False), f.name,
                 "the block a marker opens has the renderer's padding and overflow options")
    return {"function": f.name, "paths": total}

# ----------------------------------------------------------------------------
# SPEC: Selector::matches is do_matches on the whole component list: nothing in front of it may decide the answer.
# (do_matches itself is the subject of selector_simple / selector_combinators / nth_child_arith.)
# ----------------------------------------------------------------------------

def spec_selector_entry(ctx, make_exe):
    import summaries
    orig = summaries.summarize
    f = the([g for g in ctx.find(r"::matches$") if g.args and "Selector" in g.args[0][1] and len(g.args) == 2], "Selector::matches")
    shapes = [["Class", "CombChild", "Element"], ["Element"], ["Hash", "CombChild", "Element", "CombDescendant", "Class"], ["Star", "CombChild", "Star"], []]
    total = 0
    for shape in shapes:
        exe = make_exe(loop_bound=8, inline=[r"SelectorComponent", r"\{closure"])
        st = State()
        comps = []
        for i, k in enumerate(shape):
            comps.append(VAgg("SelectorComponent::" + k, k, [VOpaque("String", "name%d" % i)] if k in ("Class", "Element", "Hash") else []))
        cv = VVec(comps)
        sel = _agg(ctx, "Selector", components=cv)
        calls = []

        def summ(exe_, st_, f_, bb_, callee, args, dest_ty, calls=calls, cv=cv):
            c = callee.strip()
            if re.search(r"Selector::do_matches$", c):
                a0 = args[0]
                while isinstance(a0, VRef):
                    a0 = exe_.deref(st_, a0)
                whole = a0 is cv
                if isinstance(a0, VSlice):
                    def cval(x):
                        if isinstance(x, int):
                            return x
                        e = z3.simplify(x.e) if hasattr(x, "e") else None
                        return e.as_long() if e is not None and z3.is_bv_value(e) else None
                    whole = a0.vec is cv and cval(a0.start) == 0 and cval(a0.end) == len(cv.elems)
                r = exe_.fresh("bool", exe_.fresh_name("do_matches"))
                st_.calls.append(("do_matches_result", [bool(whole), r, repr(a0)[:80]], f_.name, bb_))
                return [(st_, r)]
            if re.search(r"<String as PartialEq>::(eq|ne)$|<str as PartialEq>::(eq|ne)$", c):
                return [(st_, exe_.fresh("bool", exe_.fresh_name("streq")))]
            return orig(exe_, st_, f_, bb_, callee, args, dest_ty)
        summaries.summarize = summ
        try:
            try:
                outs = exe.run(f.name, {1: VRef("val", sel), 2: VRef("val", VOpaque("Rc<Node>", "node"))}, st)
            except PathEnd as e:
                raise Inconclusive("Selector::matches: %s" % e)
        finally:
            summaries.summarize = orig
        if not outs:
            raise Inconclusive("Selector::matches: no path returned")
        total += len(outs)
        for (s2, ret) in outs:
            seq = [(cl[1][0], cl[1][1], cl[1][2]) for cl in s2.calls if cl[0] == "do_matches_result"]
            full = [r for (w, r, _) in seq if w]
            if os.environ.get("MIRSYM_DEBUG"):
                print("   ", shape, [(w, d) for (w, _, d) in seq])
            if not isinstance(ret, VBool):
                raise Inconclusive("Selector::matches did not return a boolean")
            if len(full) != 1:
                post(exe, s2, z3.BoolVal(False), f.name, "selector %s: the answer is not taken from do_matches on the whole selector (%d such calls on this path)" % ("/".join(shape) or "-", len(full)))
            else:
                post(exe, s2, ret.e == full[0].e, f.name, "selector %s: matches() answers what do_matches says about the whole selector" % ("/".join(shape) or "-"))
    return {"function": f.name, "paths": total}

# ----------------------------------------------------------------------------
# SPEC: block arms of do_render_node: the node's style is pushed on the renderer that is current when the arm starts
# and unwound on that same renderer - i.e. after every sub-renderer the arm pushed has been popped again - exactly
# once on every successful way through the arm and the closures tree_map_reduce calls for it (prefn, postfn per
# child, cons).  An unwind while a sub-renderer is still on top pops the *copy* of the annotation stack and leaves
# the colour on the parent: everything after the element inherits it.
# ----------------------------------------------------------------------------

def _unbox(v):
    while isinstance(v, VAgg) and ((v.path or "").startswith("Box") or v.variant == "Some") and v.fields:
        v = v.fields[0]
    if isinstance(v, VAgg) and v.variant == "None":
        return None
    return v


BLOCK_ARM_KINDS = ["Block", "Header", "Div", "BlockQuote", "Ul", "Ol", "ListItem", "Dl", "Dt", "Dd", "Break", "FragStart"]


def spec_block_arms_depth(ctx, make_exe):
    import summaries
    orig = summaries.summarize
    f = the(ctx.find(r"^do_render_node$"), "do_render_node")
    ev_re = re.compile(r"(apply|unwind|push|pop)$")
    total = 0
    checked = []
    for kind in BLOCK_ARM_KINDS:
        exe = make_exe(loop_bound=6)
        exe.check_overflow_in = set()
        st = State()
        kids = VVec([VOpaque("RenderNode", "child0")])
        if kind == "Header":
            info = VAgg("RenderNodeInfo::Header", "Header", [exe.fresh("usize", "level"), kids])
        elif kind == "Ol":
            info = VAgg("RenderNodeInfo::Ol", "Ol", [exe.fresh("i64", "start"), kids])
        elif kind == "Break":
            info = VAgg("RenderNodeInfo::Break", "Break", [])
        elif kind == "FragStart":
            info = VAgg("RenderNodeInfo::FragStart", "FragStart", [VOpaque("String", "frag")])
        else:
            info = VAgg("RenderNodeInfo::" + kind, kind, [kids])
        minw = exe.fresh("usize", "minw")
        st.pc.append(z3.And(z3.UGE(minw.e, u64(8)), z3.ULE(minw.e, u64(1000))))   # arithmetic on the estimate is other specs' subject
        pfx = exe.fresh("usize", "pfx")
        st.pc.append(z3.ULE(pfx.e, u64(8)))
        est = _agg(ctx, "SizeEstimate", size=exe.fresh("usize", "size"), min_width=minw, prefix_size=pfx)
        node = _agg(ctx, "RenderNode", info=info, style=VOpaque("ComputedStyle", "style"),
                    size_estimate=VAgg("Cell", None, [VAgg("Option::Some", "Some", [est])]))

        def summ(exe_, st_, f_, bb_, callee, args, dest_ty, est=est):
            c = callee.strip()
            if re.search(r"PushedStyleInfo::apply", c):
                return [(st_, VOpaque("PushedStyleInfo", "pushed"))]
            if re.search(r"PushedStyleInfo::unwind", c):
                return [(st_, VUnit())]
            if re.search(r"^pending2::<", c):
                return [(st_, VAgg("TreeMapResultModel", None, [args[0], args[1]]))]
            if re.search(r"RenderNode::get_size_estimate$|RenderNode::calc_size_estimate|Option::<SizeEstimate>::unwrap_or_default$", c):
                return [(st_, est)]
            if re.search(r"TextRenderer::<D>::(push|pop)$", c):
                return [(st_, VUnit() if c.endswith("push") else VOpaque("SubRenderer<D>", exe_.fresh_name("popped")))]
            return orig(exe_, st_, f_, bb_, callee, args, dest_ty)

        def events(s_, n0=0):
            return [x for x in (_short_callee(c[0]) for c in s_.calls[n0:]) if ev_re.match(x)]

        def run_closure(s_, clos, args):
            """all (state, ok) continuations of one closure call; events accumulate in the states' call logs"""
            res = []
            for (s3, r3) in exe.call_closure(s_.clone(), clos, args):
                res.append((s3, isinstance(r3, VAgg) and r3.variant == "Ok"))
            return res
        summaries.summarize = summ
        finals = []       # (state, event sequence) of successful complete ways through the arm
        n_err = 0
        try:
            try:
                outs = exe.run(f.name, {1: VRef("val", VOpaque("TextRenderer<D>", "renderer")), 2: node, 3: VRef("val", VOpaque("T", "err_out"))}, st)
                rr = VRef("val", VOpaque("TextRenderer<D>", "renderer"))
                for (s2, ret) in outs:
                    if not (isinstance(ret, VAgg) and ret.variant == "Ok"):
                        n_err += 1
                        continue
                    tm = ret.fields[0]
                    if isinstance(tm, VAgg) and tm.variant == "Finished":
                        finals.append((s2, events(s2)))
                    elif isinstance(tm, VAgg) and tm.path == "TreeMapResultModel":
                        for (s3, ok) in run_closure(s2, tm.fields[1], [rr, VVec([])]):
                            if ok:
                                finals.append((s3, events(s3)))
                    elif isinstance(tm, VAgg) and (tm.path or "").endswith("PendingChildren"):
                        cons, prefn, postfn = _unbox(tm.fields[1]), _unbox(tm.fields[2]), _unbox(tm.fields[3])
                        states = [s2]
                        child = VRef("val", VOpaque("RenderNode", "child0"))
                        for clos in (prefn, postfn):
                            if clos is None:
                                continue
                            nxt = []
                            for s_ in states:
                                nxt += [s3 for (s3, ok) in run_closure(s_, clos, [rr, child]) if ok]
                            states = nxt
                        for s_ in states:
                            for (s3, ok) in run_closure(s_, cons, [rr, VVec([])]):
                                if ok:
                                    finals.append((s3, events(s3)))
                    else:
                        raise Inconclusive("%s: result of the arm not recovered" % kind)
            except PathEnd as e:
                raise Inconclusive("%s: %s" % (kind, e))
        finally:
            summaries.summarize = orig
        total += len(finals) + n_err
        if not finals:
            raise Inconclusive("%s: no successful way through the arm" % kind)
        checked.append(kind)
        for (s3, seq) in finals:
            depth = 0
            at_apply = None
            unwound_at = []
            for ev in seq:
                if ev == "push":
                    depth += 1
                elif ev == "pop":
                    depth -= 1
                elif ev == "apply":
                    at_apply = depth
                elif ev == "unwind":
                    unwound_at.append(depth)
            post(exe, s3, z3.BoolVal(seq.count("apply") == 1 and len(unwound_at) == 1), f.name,
                 "%s: the node's style is pushed once and unwound once (%s)" % (kind, seq))
            post(exe, s3, z3.BoolVal(bool(unwound_at) and unwound_at[0] == at_apply), f.name,
                 "%s: the style is unwound on the renderer it was pushed on, after the sub-renderers are popped (%s)" % (kind, seq))
            post(exe, s3, z3.BoolVal(depth == 0), f.name, "%s: every sub-renderer pushed is popped again (%s)" % (kind, seq))
    return {"function": f.name, "paths": total, "arms": checked}

# ----------------------------------------------------------------------------
# SPEC: the footnote list has one entry per recorded link, in order, numbered from 1 (TextDecorator::finalise, the
# default used by the plain, rich and trivial decorators), and SubRenderer::finalise hands the decorator all the
# links when footnotes are enabled and none otherwise.
# ----------------------------------------------------------------------------

def spec_finalise_entries(ctx, make_exe):
    import summaries
    orig = summaries.summarize
    f = the(ctx.find(r"^TextDecorator::finalise$"), "TextDecorator::finalise (default method)")
    total = 0
    for n in (0, 1, 3, 4):
        exe = make_exe(loop_bound=8, inline=[r"TextDecorator::finalise::\{closure"])
        st = State()
        urls = [VOpaque("String", "url%d" % k) for k in range(n)]
        shown = []      # (kind, value) in call order

        def summ(exe_, st_, f_, bb_, callee, args, dest_ty, shown=shown):
            c = callee.strip()
            m = re.search(r"Argument::<'_>::new_(\w+)::<(\w+)>$", c)
            if m:
                v = args[0]
                while isinstance(v, VRef):
                    v = exe_.deref(st_, v)
                shown.append((m.group(1), m.group(2), v))
                return [(st_, VOpaque("Argument", exe_.fresh_name("fmtarg")))]
            if re.search(r"^Arguments::<'_>::new::<", c):
                shown.append(("template", "", args[0]))
                return [(st_, VOpaque("Arguments", exe_.fresh_name("fmtargs")))]
            if re.search(r"String::is_empty$|str>::is_empty$", c):
                return [(st_, exe_.fresh("bool", exe_.fresh_name("empty")))]
            return orig(exe_, st_, f_, bb_, callee, args, dest_ty)
        summaries.summarize = summ
        try:
            outs = exe.run(f.name, {1: VRef("val", VOpaque("Self", "dec")), 2: VVec(urls)}, st)
        finally:
            summaries.summarize = orig
        if not outs:
            raise Inconclusive("no path returned")
        if len(outs) != 1:
            # the order of `shown` is only meaningful on a single path
            post(exe, outs[0][0], z3.BoolVal(False), f.name, "the footnote list depends on something other than the order of the links (%d paths)" % len(outs))
            total += len(outs)
            continue
        total += 1
        (s2, ret) = outs[0]
        post(exe, s2, z3.BoolVal(isinstance(ret, VVec) and len(ret.elems) == n), f.name,
             "%d links give %d footnote lines (got %s)" % (n, n, len(ret.elems) if isinstance(ret, VVec) else "?"))
        per = [shown[i:i + 3] for i in range(0, len(shown), 3)]
        ok_shape = len(per) == n and all(len(p) == 3 and p[0][:2] == ("display", "usize") and p[1][:2] == ("display", "String") and p[2][0] == "template" for p in per)
        post(exe, s2, z3.BoolVal(bool(ok_shape)), f.name, "every footnote line is formatted from a number and a target")
        if ok_shape:
            for k, p_ in enumerate(per):
                num, tgt, tmpl = p_[0][2], p_[1][2], p_[2][2]
                post(exe, s2, num.e == u64(k + 1) if isinstance(num, VInt) else z3.BoolVal(False), f.name, "footnote line %d carries the number %d" % (k + 1, k + 1))
                post(exe, s2, z3.BoolVal(tgt is urls[k]), f.name, "footnote line %d shows the target of link %d" % (k + 1, k + 1))
                post(exe, s2, z3.BoolVal(getattr(tmpl, "name", "") == 'const:b"\\x01[\\xc0\\x03]: \\xc0\\x00"'), f.name,
                     "a footnote line reads `[number]: target` (template %s)" % getattr(tmpl, "name", "?"))
    # the wrapper: all links when footnotes are enabled, none otherwise
    g = the(ctx.find(r"text_renderer::<impl at [^>]*>::finalise$"), "SubRenderer::finalise")
    exe = make_exe(loop_bound=4)
    st = State()
    on = exe.fresh("bool", "include_link_footnotes")
    opts = _agg(ctx, "RenderOptions", include_link_footnotes=on)
    sub = _agg(ctx, "SubRenderer", options=opts)
    links = VVec([VOpaque("String", "link0"), VOpaque("String", "link1")])
    outs = exe.run(g.name, {1: VRef("val", sub), 2: links}, st)
    if not outs:
        raise Inconclusive("SubRenderer::finalise: no path returned")
    for (s2, ret) in outs:
        calls = [c for c in s2.calls if c[2] == g.name and re.search(r"TextDecorator>::finalise$", c[0])]
        post(exe, s2, z3.BoolVal(len(calls) == 1), g.name, "the decorator's finalise is called exactly once")
        if len(calls) == 1:
            arg = calls[0][1][1]
            full = arg is links or (isinstance(arg, VVec) and [getattr(e, "name", None) for e in arg.elems] == ["link0", "link1"])
            empty = isinstance(arg, VVec) and len(arg.elems) == 0 and arg is not links
            if not (full or empty):
                raise Inconclusive("argument of the decorator's finalise not recovered: %r" % (arg,))
            post(exe, s2, on.e if full else z3.Not(on.e), g.name, "the decorator gets every link when footnotes are enabled and none otherwise")
    total += len(outs)
    return {"function": f.name, "paths": total}

# ----------------------------------------------------------------------------
# SPEC: the dispatch of process_dom_node on the element's name.  The name is a *symbolic* pair of atoms (namespace,
# local name); string_cache packs a name of at most 7 bytes into the atom's u64 itself (tag 1, length, bytes), so
# the expected table below can be stated on the packed values without trusting anything in the tree under check.
# Per path the constructor reached is observed (pending / pending_noempty with its closure, the table functions,
# Nothing, Finished) and the variant each closure builds is taken from the closure's own MIR.
# ----------------------------------------------------------------------------

def _inline_atom(name):
    b = name.encode()
    assert 0 < len(b) <= 7
    v = 1 | (len(b) << 4)
    for i, ch in enumerate(b):
        v |= ch << (8 * (i + 1))
    return v


HTML_NS_ATOM = 2    # NamespaceStaticSet index 0 (the XHTML namespace), static tag 0b10

ELEMENT_TABLE = {
    "html": ("pending", "Container"), "body": ("pending", "Container"),
    "link": ("nothing", None), "meta": ("nothing", None), "hr": ("nothing", None), "script": ("nothing", None),
    "style": ("nothing", None), "head": ("nothing", None),
    "span": ("pending_noempty", "Container"),
    "a": ("boxed", "Container"),
    "em": ("pending", "Em"), "i": ("pending", "Em"), "ins": ("pending", "Em"),
    "strong": ("pending", "Strong"), "s": ("pending", "Strikeout"), "del": ("pending", "Strikeout"),
    "code": ("pending", "Code"), "img": ("nothing", None),
    "h1": ("pending", "Header"), "h2": ("pending", "Header"), "h3": ("pending", "Header"),
    "h4": ("pending", "Header"), "h5": ("pending", "Header"), "h6": ("pending", "Header"),
    "p": ("pending_noempty", "Block"), "li": ("pending", "ListItem"), "sup": ("pending", "Sup"),
    "div": ("pending_noempty", "Div"), "pre": ("pending", "Block"), "br": ("finished", "Break"),
    "table": ("table_to_render_tree", None), "thead": ("tbody_to_render_tree", None),
    "tbody": ("tbody_to_render_tree", None), "tfoot": ("tbody_to_render_tree", None),
    "tr": ("tr_to_render_tree", None), "th": ("td_to_render_tree", None), "td": ("td_to_render_tree", None),
    "ul": ("pending_noempty", "Ul"), "ol": ("pending_noempty", "Ol"), "dl": ("pending_noempty", "Dl"),
    "dt": ("pending", "Dt"), "dd": ("pending", "Dd"),
    # a sample of names without an arm of their own: transparent containers (C13: "span/unknown elements")
    "b": ("pending_noempty", "Container"), "u": ("pending_noempty", "Container"), "font": ("pending_noempty", "Container"),
    "center": ("pending_noempty", "Container"), "section": ("pending_noempty", "Container"),
    "caption": ("pending_noempty", "Container"), "label": ("pending_noempty", "Container"),
    "small": ("pending_noempty", "Container"), "q": ("pending_noempty", "Container"),
}


def _closure_variant(ctx, make_exe, loc, cache):
    """RenderNodeInfo variant built by the constructor closure written at `loc` (file:line:col text)."""
    if loc in cache:
        return cache[loc]
    fs = [f for f in ctx.find(r"^process_dom_node::\{closure#\d+\}$") if f.args and loc in f.args[0][1]]
    variant = None
    if len(fs) == 1:
        f = fs[0]
        exe = make_exe(inline=[r"RenderNode::new_styled$", r"RenderNode::new$"], loop_bound=6)
        exe.check_obligations = False
        try:
            outs = exe.run(f.name, {3: VVec([VOpaque("RenderNode", "child0")])}, State())
        except PathEnd:
            outs = []
        vs = set()
        for (s2, ret) in outs:
            val = ret
            if isinstance(val, VAgg) and val.variant == "Ok":
                val = val.fields[0]
            if isinstance(val, VAgg) and val.variant == "Some":
                node = val.fields[0]
                if isinstance(node, VAgg) and node.names and "info" in node.names:
                    info = node.fields[node.names.index("info")]
                    if isinstance(info, VAgg):
                        vs.add(info.variant)
        if len(vs) == 1:
            variant = vs.pop()
    cache[loc] = variant
    return variant


def spec_element_dispatch(ctx, make_exe):
    import summaries
    orig = summaries.summarize
    f = the(ctx.find(r"^process_dom_node$"), "process_dom_node")
    ctx.enums.setdefault("NodeData", ["Document", "Doctype", "Text", "Comment", "Element", "ProcessingInstruction"])
    exe = make_exe(inline=[r"RenderNode::new_styled$", r"RenderNode::new$"], loop_bound=6)
    st = State()
    ns = exe.fresh("u64", "ns_atom")
    ln = exe.fresh("u64", "local_atom")

    def atom(v):
        return VAgg("Atom", None, [VAgg("NonZero", None, [VAgg("Inner", None, [v])])])
    node = VAgg("Node", None, [VOpaque("Cell", "parent"), VOpaque("RefCell", "children"),
                               VAgg("NodeData::Element", "Element", [VOpaque("QualName", "elname"), VOpaque("RefCell<Vec<Attribute>>", "attrcell"),
                                                                     VOpaque("RefCell", "tc"), VOpaque("bool", "mx")])])
    inp = _agg(ctx, "RenderInput", handle=VOpaque("Rc<Node>", "handle"), parent_style=VOpaque("Rc<ComputedStyle>", "parent_style"))

    def summ(exe_, st_, f_, bb_, callee, args, dest_ty):
        c = callee.strip()
        if re.search(r"^<Rc<Node> as Clone>::clone$", c):
            return [(st_, VOpaque("Rc<Node>", "handle_clone"))]
        if re.search(r"^<Rc<Node> as Deref>::deref$", c):
            return [(st_, VRef("val", node))]
        if re.search(r"^<Rc<ComputedStyle> as Deref>::deref$", c):
            return [(st_, VRef("val", VOpaque("ComputedStyle", "parent")))]
        if re.search(r"StyleData::computed_style$", c):
            return [(st_, VOpaque("ComputedStyle", "computed"))]
        if re.search(r"WithSpec::<css::Display>::val$", c):
            return [(st_, VAgg("Option::None", "None", []))]
        if re.search(r"RefCell::<Vec<Attribute>>::borrow$", c):
            return [(st_, VRef("val", VVec([])))]
        if re.search(r"^<Ref<'_, Vec<Attribute>> as Deref>::deref$", c) or re.search(r"^<Vec<Attribute> as Deref>::deref$", c):
            return [(st_, args[0])]
        if re.search(r"^Option::<Box<ComputedStyle>>::is_some$", c):
            return [(st_, VBool(z3.BoolVal(False)))]
        if re.search(r"QualName::expanded$", c):
            return [(st_, VAgg("ExpandedName", None, [VRef("val", atom(ns)), VRef("val", atom(ln))]))]
        return orig(exe_, st_, f_, bb_, callee, args, dest_ty)
    summaries.summarize = summ
    try:
        outs = exe.run(f.name, {1: inp, 2: VOpaque("&mut T", "err_out"), 3: VRef("val", VOpaque("HtmlContext", "context"))}, st)
    finally:
        summaries.summarize = orig
    if len(outs) < 20:
        raise Inconclusive("only %d paths through the dispatch" % len(outs))
    cache = {}
    known = [(n, _inline_atom(n)) for n in ELEMENT_TABLE]
    is_html = ns.e == u64(HTML_NS_ATOM)
    seen = {}
    for (s2, ret) in outs:
        kind, variant = None, None
        for c in s2.calls:
            if c[2] != f.name:
                continue
            m = re.match(r"(pending|pending_noempty)::<\{closure@([^}]*)\}>$", c[0])
            if m:
                kind, variant = m.group(1), _closure_variant(ctx, make_exe, m.group(2), cache)
                break
            m = re.match(r"(table_to_render_tree|tbody_to_render_tree|tr_to_render_tree|td_to_render_tree)\b", c[0])
            if m:
                kind = m.group(1)
                break
            m = re.match(r"Box::<\{closure@([^}]*)\}>::new$", c[0])
            if m:
                kind, variant = "boxed", _closure_variant(ctx, make_exe, m.group(1), cache)
                break
        if kind is None:
            val = ret.fields[0] if isinstance(ret, VAgg) and ret.variant == "Ok" else None
            if isinstance(val, VAgg) and val.variant == "Nothing":
                kind = "nothing"
            elif isinstance(val, VAgg) and val.variant == "Finished":
                kind = "finished"
                nd = val.fields[0]
                if isinstance(nd, VAgg) and nd.names and "info" in nd.names and isinstance(nd.fields[nd.names.index("info")], VAgg):
                    variant = nd.fields[nd.names.index("info")].variant
            else:
                raise Inconclusive("a path through the dispatch ends in neither a constructor nor Nothing / Finished")
        got = (kind, variant)
        seen[got] = seen.get(got, 0) + 1
        wrong = []
        for (name, enc) in known:
            want = ELEMENT_TABLE[name]
            okay = (kind == want[0]) if want[1] is None else (got == want)
            if not okay:
                wrong.append(enc)
        if wrong:
            post(exe, s2, z3.Not(z3.And(is_html, z3.Or(*[ln.e == u64(enc) for enc in wrong]))), f.name,
                 "the element named by local_atom is converted by %s/%s, which is not what the table of elements says" % got, tag="name")
        if got != ("pending_noempty", "Container"):
            # only HTML elements with an arm of their own are anything but a transparent container; names longer than
            # 7 bytes are static atoms (tag 0b10), whose numbering this spec does not know: they are left out
            allowed = z3.And(is_html, z3.Or(*([ln.e == u64(enc) for (n_, enc) in known if ELEMENT_TABLE[n_] == got or (ELEMENT_TABLE[n_][1] is None and ELEMENT_TABLE[n_][0] == kind)]
                                              + [(ln.e & u64(3)) == u64(2)])))
            post(exe, s2, allowed, f.name, "only the elements listed for %s/%s are converted that way; everything else is a transparent container" % got, tag="other")
    for want in set(ELEMENT_TABLE.values()):
        if not any((k == want[0] and (want[1] is None or v == want[1])) for (k, v) in seen):
            post(exe, st, z3.BoolVal(False), f.name, "no path converts an element by %s/%s" % want, tag="missing")
    return {"function": f.name, "paths": len(outs), "names": len(known), "kinds": sorted("%s/%s" % k for k in seen)}

# ----------------------------------------------------------------------------
# SPEC: add_text neither loses, duplicates nor reorders a character that is not whitespace (content of the
# flushed lines, the current line and the word buffer is tracked as a sequence of element tokens)
# ----------------------------------------------------------------------------

def spec_wrap_text_preserved_normal(ctx, make_exe):
    return spec_wrap_text_preserved(ctx, make_exe, plans=[("Normal", 2, ["a", " ", "\n", "\t", "wide", "comb", "nbsp"])])


def spec_wrap_text_preserved(ctx, make_exe, plans=None):
    import wrapmodel
    import summaries
    f = the(ctx.find(r"::add_text$", debug=["self", "text", "ws_mode", "main_tag", "wrap_tag"]), "WrappedBlock::add_text")
    total = 0
    if plans is None:
        plans = [("Normal", 2, ["a", " ", "\n", "\t", "wide", "comb", "nbsp"]), ("Pre", 2, ["a", " ", "\n", "wide"]), ("PreWrap", 2, ["a", " ", "\n", "wide"]),
                 ("Pre", 1, ["\t"]), ("Normal", 3, ["a", " ", "wide", "comb"])]
    for (mode, nchars, alphabet) in plans:
        for tag_some in (True, False):
            exe = make_exe(inline=WRAP_INLINE, loop_bound=30 if "\t" in alphabet else 24, timeout_ms=20000)
            m = wrapmodel.WrapModel(ctx, exe)
            m.track = True
            m.install(hard_wrap="contract")
            st = State()
            st.pc += m.invariant(mode == "Normal", tag_some)
            modev = exe.fresh("u8", "s.mode")
            st.pc.append(modev.e == {"Normal": 0, "Pre": 1, "PreWrap": 2}[mode])
            exe.cell_n += 1
            cid = "cell%d" % exe.cell_n
            exe.global_cells[cid] = m.block(tag_some)
            ref = VRef("cell", cid)
            chars = []
            for i in range(nchars):
                c = exe.fresh("u32", "ch%d" % i)
                st.pc.append(wrapmodel.in_alphabet(c.e, alphabet))
                chars.append(c)
            st.pc += [z3.ULE(m.wslen.e, u64(3))]
            if "\t" in alphabet:
                st.pc += [z3.ULE(m.width.e, u64(20))]
            exe.hints = [z3.ULE(m.width.e, u64(12)), z3.ULE(m.wordlen.e, u64(12)), z3.ULE(m.line_len.e, u64(12)), z3.ULE(m.text_count.e, u64(3))]
            try:
                outs = exe.run(f.name, {1: ref, 2: VRef("val", VVec(chars)), 3: wrapmodel.ws_mode(mode),
                                        4: VRef("val", VOpaque("T", "main_tag")), 5: VRef("val", VOpaque("T", "wrap_tag"))}, st)
            finally:
                m.uninstall()
            total += len(outs)
            n_ok = 0
            for (s2, ret) in outs:
                if not (isinstance(ret, VAgg) and ret.variant == "Ok"):
                    continue
                n_ok += 1
                blk = exe.deref(s2, ref)
                g = lambda n_: blk.fields[m.names.index(n_)]
                text, line, word = g("text"), g("line"), g("word")
                if not (len(text.fields) == 3 and isinstance(line.fields[0], VVec) and isinstance(word.fields[0], VVec)):
                    raise Inconclusive("content of the block not tracked on some path")
                seq = list(text.fields[2].elems) + list(line.fields[0].elems) + list(word.fields[0].elems)
                wsness = {}

                def is_ws(e_):
                    # add_text branches on is_whitespace for every character, so each path determines it
                    k_ = e_.get_id()
                    if k_ not in wsness:
                        wsness[k_] = exe.sat(s2.pc + [z3.Not(wrapmodel.char_is_ws(e_))]) is None
                    return wsness[k_]
                got = []
                for t in seq:
                    if isinstance(t, VAgg) and t.path == "ws":
                        continue                                    # pending / preserved whitespace columns
                    if isinstance(t, VAgg) and t.path == "StrModel":
                        continue                                    # " ".repeat(n): whitespace
                    if isinstance(t, VInt):
                        # a character pushed by push_char: whitespace is pushed as such in <pre> (tab stops)
                        if is_ws(t.e):
                            continue
                        got.append(("c", t.e))
                    elif isinstance(t, VOpaque):
                        got.append(("tok", t.name))
                    else:
                        got.append(("?", repr(t)[:40]))
                want = [("tok", "LINE0"), ("tok", "WORD0")]
                for c in chars:
                    if not is_ws(c.e):
                        want.append(("c", c.e))
                same = len(got) == len(want) and all(a[0] == b[0] and (z3.eq(a[1], b[1]) if a[0] == "c" else a[1] == b[1]) for a, b in zip(got, want))
                post(exe, s2, z3.BoolVal(bool(same)), f.name,
                     "add_text(%s): what was there before and every non-whitespace character of the text is kept exactly once, in order (%s vs %s)" % (
                         mode, [x[0] if x[0] != "tok" else x[1] for x in got], [x[0] if x[0] != "tok" else x[1] for x in want]))
            if not n_ok:
                raise Inconclusive("no successful path for %s" % mode)
    return {"function": f.name, "paths": total}

# ----------------------------------------------------------------------------
# SPEC: the tree driver visits every node once, in document order, and hands each parent the results of its
# children in order (tree_map_reduce, the loop behind both DOM -> render tree and render tree -> lines)
# ----------------------------------------------------------------------------

def spec_tree_traversal(ctx, make_exe):
    import summaries
    orig = summaries.summarize
    f = the(ctx.find(r"^tree_map_reduce$"), "tree_map_reduce")
    # shape: node -> children (document order); every node may also turn out finished or "nothing"
    shapes = [{0: [1, 2, 3], 2: [4, 5]}, {0: [1], 1: [2], 2: [3]}, {0: []}]
    if ctx.tier == "thorough":
        shapes.append({0: [1, 2], 1: [3, 4], 2: [5, 6], 4: [7]})
    total = 0
    for shape in shapes:
        nodes = sorted(set([0] + [c for cs in shape.values() for c in cs]))
        exe = make_exe(loop_bound=4 * len(nodes) + 8)
        st = State()
        kind = {i: exe.fresh("u8", "node%d.kind" % i) for i in nodes}     # 0 finished, 1 pending children, 2 nothing
        for i in nodes:
            st.pc.append(z3.ULE(kind[i].e, 2))
        NV = {i: VOpaque("N", "n%d" % i) for i in nodes}

        def nm(exe_, st_, v):
            while isinstance(v, VRef):
                v = exe_.deref(st_, v)
            return getattr(v, "name", None) or ""

        def ev(st_, *item):
            st_.calls.append(("verif::event", list(item), f.name, "-"))

        def summ(exe_, st_, f_, bb_, callee, args, dest_ty):
            c = callee.strip()
            if re.search(r"^Box::<\{closure@.*\}>::new$", c):
                return [(st_, args[0])]
            if re.search(r"Box::<\[N; 1\]>::new_uninit$", c):
                return [(st_, VOpaque("Box", exe_.fresh_name("box")))]
            if re.search(r"box_assume_init_into_vec_unsafe::<N, 1>$", c):
                return [(st_, VVec([NV[0]]))]
            if re.search(r"^<M as FnMut<\(&mut C, N\)>>::call_mut$", c):
                tup = args[1]
                h = tup.fields[1] if isinstance(tup, VAgg) else None
                i = int(nm(exe_, st_, h)[1:])
                outs = []
                for k, build in ((0, lambda: VAgg("TreeMapResult::Finished", "Finished", [VOpaque("R", "r%d" % i)])),
                                 (1, lambda: VAgg("TreeMapResult::PendingChildren", "PendingChildren",
                                                  [VVec([NV[c_] for c_ in shape.get(i, [])]), VOpaque("cons", "cons%d" % i),
                                                   VAgg("Option::Some", "Some", [VOpaque("prefn", "pre%d" % i)]),
                                                   VAgg("Option::Some", "Some", [VOpaque("postfn", "post%d" % i)])],
                                                  ["children", "cons", "prefn", "postfn"])),
                                 (2, lambda: VAgg("TreeMapResult::Nothing", "Nothing", []))):
                    cond = kind[i].e == k
                    if exe_.feasible(st_, cond):
                        s3 = st_.clone()
                        s3.pc.append(cond)
                        ev(s3, "process", i, k)
                        outs.append((s3, VAgg("Result::Ok", "Ok", [build()])))
                return outs
            if re.search(r"^<Box<dyn for<'a, 'b> Fn\(&'a mut C, &'b [NR]\) -> .*> as Fn<.*>>::call$", c):
                who = nm(exe_, st_, args[0])
                tup = args[1]
                what = nm(exe_, st_, tup.fields[1]) if isinstance(tup, VAgg) else "?"
                ev(st_, "call", who, what)
                return [(st_, VAgg("Result::Ok", "Ok", [VUnit()]))]
            if re.search(r"^<Box<dyn for<'a> FnOnce\(&'a mut C, Vec<R>\) -> .*> as FnOnce<.*>>::call_once$", c):
                who = args[0]
                while isinstance(who, VRef):
                    who = exe_.deref(st_, who)
                tup = args[1]
                kids = tup.fields[1] if isinstance(tup, VAgg) else None
                if isinstance(who, VOpaque) and re.match(r"cons\d+$", who.name):
                    i = int(who.name[4:])
                    ev(st_, "construct", i, [getattr(x, "name", "?") for x in kids.elems] if isinstance(kids, VVec) else None)
                    return [(st_, VAgg("Result::Ok", "Ok", [VAgg("Option::Some", "Some", [VOpaque("R", "r%d" % i)])]))]
                # the driver's own top-level closure: executed from its MIR
                return exe_.call_closure(st_, who, [tup.fields[0], kids])
            return orig(exe_, st_, f_, bb_, callee, args, dest_ty)
        summaries.summarize = summ
        try:
            outs = exe.run(f.name, {1: VRef("val", VOpaque("C", "context")), 2: NV[0], 3: VOpaque("M", "process_node")}, st)
        finally:
            summaries.summarize = orig
        total += len(outs)
        if not outs:
            raise Inconclusive("no path returned")
        for (s2, ret) in outs:
            evs = [c[1] for c in s2.calls if c[0] == "verif::event"]
            kinds = {}
            for e in evs:
                if e[0] == "process":
                    kinds[e[1]] = e[2]
            # reference: what a correct driver does on this path's choices
            want = []

            def walk(i, parent):
                if parent is not None:
                    want.append(["call", "pre%d" % parent, "n%d" % i])
                k = kinds.get(i)
                want.append(["process", i, k])
                if k == 0:
                    if parent is not None:
                        want.append(["call", "post%d" % parent, "r%d" % i])
                    return "r%d" % i
                if k == 1:
                    res = []
                    for c_ in shape.get(i, []):
                        r_ = walk(c_, i)
                        if r_ is not None:
                            res.append(r_)
                    want.append(["construct", i, res])
                    if parent is not None:
                        want.append(["call", "post%d" % parent, "r%d" % i])
                    return "r%d" % i
                return None
            top = walk(0, None)
            if any(k is None for k in [kinds.get(0)]):
                raise Inconclusive("the root was not processed on some path")
            post(exe, s2, z3.BoolVal(evs == want), f.name,
                 "every node is visited once in document order, pre / post hooks surround each child, and each parent is built from its children's results in order (%s vs %s)" % (
                     [tuple(e[:2]) for e in evs][:14], [tuple(e[:2]) for e in want][:14]))
            okr = isinstance(ret, VAgg) and ret.variant == "Ok"
            got_top = None
            if okr:
                o = ret.fields[0]
                if isinstance(o, VAgg) and o.variant == "Some":
                    got_top = getattr(o.fields[0], "name", "?")
                elif isinstance(o, VAgg) and o.variant == "None":
                    got_top = None
                else:
                    got_top = "?"
            post(exe, s2, z3.BoolVal(okr and got_top == top), f.name, "the result is the root's result (%s, want %s)" % (got_top, top))
    return {"function": f.name, "paths": total}

# ----------------------------------------------------------------------------
# SPEC: the string route and the tagged-line route render a line to the same characters (RenderLine)
# ----------------------------------------------------------------------------

def spec_line_routes_agree(ctx, make_exe):
    import summaries
    orig = summaries.summarize
    fs = the([g for g in ctx.find(r"::to_string$") if g.args and "RenderLine" in g.args[0][1]], "RenderLine::to_string")
    ft = the([g for g in ctx.find(r"::into_tagged_line$") if g.args and "RenderLine" in g.args[0][1]], "RenderLine::into_tagged_line")
    total = 0
    for kind in ("Text", "Line"):
        res = {}
        for f in (fs, ft):
            exe = make_exe(loop_bound=4)
            if kind == "Text":
                line = VAgg("RenderLine::Text", "Text", [VOpaque("TaggedLine", "the_line")])
            else:
                line = VAgg("RenderLine::Line", "Line", [_agg(ctx, "BorderHoriz", tag=VOpaque("T", "border_tag"), segments=VOpaque("Vec<BorderSegHoriz>", "segs"))])
            pushed = []

            def nm(exe_, st_, v):
                while isinstance(v, VRef):
                    v = exe_.deref(st_, v)
                return v

            def summ(exe_, st_, f_, bb_, callee, args, dest_ty, pushed=pushed):
                c = callee.strip()
                if re.search(r"TaggedLine::<.*>::to_string$", c):
                    v = nm(exe_, st_, args[0])
                    return [(st_, VOpaque("String", "string_of:" + getattr(v, "name", "?")))]
                if re.search(r"BorderHoriz::<.*>::to_string$", c):
                    v = nm(exe_, st_, args[0])
                    segs = v.fields[v.names.index("segments")] if isinstance(v, VAgg) and v.names else v
                    return [(st_, VOpaque("String", "string_of:" + getattr(segs, "name", "?")))]
                if re.search(r"TaggedLine::<.*>::new$", c):
                    return [(st_, VOpaque("TaggedLine", "fresh_line"))]
                if re.search(r"TaggedLine::<.*>::push$", c):
                    pushed.append(args[1])
                    return [(st_, VUnit())]
                if re.search(r"as Clone>::clone$", c):
                    v = nm(exe_, st_, args[0])
                    return [(st_, VOpaque("T", "clone_of:" + getattr(v, "name", "?")))]
                return orig(exe_, st_, f_, bb_, callee, args, dest_ty)
            summaries.summarize = summ
            try:
                outs = exe.run(f.name, {1: (VRef("val", line) if f is fs else line)}, State())
            finally:
                summaries.summarize = orig
            total += len(outs)
            if len(outs) != 1:
                raise Inconclusive("%s: expected one path for a %s line, got %d" % (f.name[-20:], kind, len(outs)))
            res[f.name] = (exe, outs[0], list(pushed))
        exe_s, (s_s, ret_s), _ = res[fs.name]
        exe_t, (s_t, ret_t), pushed_t = res[ft.name]
        sname = getattr(ret_s, "name", None)
        if kind == "Text":
            post(exe_s, s_s, z3.BoolVal(sname == "string_of:the_line"), fs.name, "Text: the string route prints the tagged line")
            post(exe_t, s_t, z3.BoolVal(getattr(ret_t, "name", None) == "the_line" and not pushed_t), ft.name, "Text: the tagged route hands out the same line unchanged")
        else:
            post(exe_s, s_s, z3.BoolVal(sname == "string_of:segs"), fs.name, "Line: the string route prints the rule")
            ok = len(pushed_t) == 1 and isinstance(pushed_t[0], VAgg) and pushed_t[0].variant == "Str"
            st_name = tag_name = None
            if ok:
                ts = pushed_t[0].fields[0]
                st_name = getattr(ts.fields[ts.names.index("s")], "name", None)
                tag_name = getattr(ts.fields[ts.names.index("tag")], "name", None)
            post(exe_t, s_t, z3.BoolVal(ok and st_name == sname), ft.name, "Line: the tagged route holds exactly the string the string route prints (%s vs %s)" % (st_name, sname))
            post(exe_t, s_t, z3.BoolVal(tag_name == "clone_of:border_tag"), ft.name, "Line: the rule keeps its own annotation")
            post(exe_t, s_t, z3.BoolVal(getattr(ret_t, "name", None) == "fresh_line"), ft.name, "Line: the result is the line that was filled")
    return {"functions": [fs.name, ft.name], "paths": total}

# ----------------------------------------------------------------------------
# SPEC: simple selector components (class, id, element name, *) and the sibling index of :nth-child
# ----------------------------------------------------------------------------

def spec_selector_simple(ctx, make_exe):
    import summaries
    orig = summaries.summarize
    f = the(ctx.find(r"do_matches$", debug=["comps", "node", "parent"]), "Selector::do_matches")
    ctx.enums.setdefault("NodeData", ["Document", "Doctype", "Text", "Comment", "Element", "ProcessingInstruction"])
    total = 0
    for comp in ("Class", "Hash", "Element", "Star"):
        for is_element in (True, False):
            for n_attrs in ((0, 1, 2) if is_element and comp in ("Class", "Hash") else (0,)):
                exe = make_exe(loop_bound=8)
                st = State()
                rest = exe.fresh("bool", "rest_matches")
                name_eq = exe.fresh("bool", "element_name_equals")
                payload = [] if comp == "Star" else [VOpaque("String", "wanted")]
                comps = VVec([VAgg("SelectorComponent::" + comp, comp, payload), VOpaque("SelectorComponent", "next_component")])
                is_cls = [exe.fresh("bool", "attr%d.is_class" % k) for k in range(n_attrs)]
                is_id = [exe.fresh("bool", "attr%d.is_id" % k) for k in range(n_attrs)]
                for k in range(n_attrs):
                    st.pc.append(z3.Not(z3.And(is_cls[k].e, is_id[k].e)))
                for i_ in range(n_attrs):
                    for j_ in range(i_ + 1, n_attrs):
                        st.pc += [z3.Not(z3.And(is_cls[i_].e, is_cls[j_].e)), z3.Not(z3.And(is_id[i_].e, is_id[j_].e))]
                # each attribute value holds two whitespace-separated words; equality with the wanted name is arbitrary
                word_eq = [[exe.fresh("bool", "attr%d.word%d.equals" % (k, w)) for w in range(2)] for k in range(n_attrs)]
                val_eq = [exe.fresh("bool", "attr%d.value.equals" % k) for k in range(n_attrs)]
                attrs = VVec([VAgg("Attribute", None, [VAgg("QualName", None, [VOpaque("Option<Prefix>", "pfx"), VOpaque("Namespace", "ns"), VOpaque("Atom", "attrname%d" % k)]),
                                                        VOpaque("Tendril", "attrvalue%d" % k)]) for k in range(n_attrs)])
                if is_element:
                    data = VAgg("NodeData::Element", "Element", [VOpaque("QualName", "elname"), VOpaque("RefCell<Vec<Attribute>>", "attrcell"),
                                                                  VOpaque("RefCell", "tc"), VOpaque("bool", "mx")])
                else:
                    data = VAgg("NodeData::Text", "Text", [VOpaque("RefCell<Tendril>", "text")])
                node = VAgg("Node", None, [VOpaque("Cell", "parent"), VOpaque("RefCell", "children"), data])

                def nm(exe_, st_, v):
                    while isinstance(v, VRef):
                        v = exe_.deref(st_, v)
                    return getattr(v, "name", None) or ""

                def summ(exe_, st_, f_, bb_, callee, args, dest_ty):
                    c = callee.strip()
                    if re.search(r"core::slice::<impl \[.*\]>::first$", c):
                        return [(st_, VAgg("Option::Some", "Some", [VRef("val", comps.elems[0])]))]
                    if re.search(r"^<\[SelectorComponent\] as Index<std::ops::RangeFrom<usize>>>::index$", c):
                        return [(st_, VRef("val", VOpaque("[SelectorComponent]", "comps_tail")))]
                    if re.search(r"Selector::do_matches$", c):
                        return [(st_, rest)]
                    if re.search(r"^<Rc<Node> as Deref>::deref$", c):
                        return [(st_, VRef("val", node))]
                    if re.search(r"^RefCell::<Vec<Attribute>>::borrow$", c):
                        return [(st_, VRef("val", attrs))]
                    if re.search(r"^<Ref<'_, Vec<Attribute>> as Deref>::deref$", c):
                        return [(st_, args[0])]
                    if re.search(r"Atom<LocalNameStaticSet> as PartialEq<&str>>::eq$", c):
                        m_ = re.match(r"attrname(\d+)$", nm(exe_, st_, args[0]))
                        lit = nm(exe_, st_, args[1])
                        if m_ and '"class"' in lit:
                            return [(st_, is_cls[int(m_.group(1))])]
                        if m_ and '"id"' in lit:
                            return [(st_, is_id[int(m_.group(1))])]
                        return None
                    if re.search(r"^<Tendril<UTF8> as Deref>::deref$", c):
                        return [(st_, VRef("val", VOpaque("str", "value:" + nm(exe_, st_, args[0]))))]
                    if re.search(r"core::str::<impl str>::split_whitespace$", c):
                        k = int(nm(exe_, st_, args[0])[-1])
                        return [(st_, VIter("vec", VVec([VRef("val", VOpaque("str", "word%d_%d" % (k, w))) for w in range(2)]), 0))]
                    if re.search(r"^<SplitWhitespace<'_> as IntoIterator>::into_iter$", c):
                        return [(st_, args[0])]
                    if re.search(r"^<SplitWhitespace<'_> as Iterator>::next$", c):
                        it = exe_.deref(st_, args[0])
                        if it.pos < len(it.src.elems):
                            exe_.write_ref(st_, args[0], [], VIter("vec", it.src, it.pos + 1), None)
                            return [(st_, VAgg("Option::Some", "Some", [it.src.elems[it.pos]]))]
                        return [(st_, VAgg("Option::None", "None", []))]
                    if re.search(r"^<&str as PartialEq<&String>>::eq$", c):
                        a_ = nm(exe_, st_, args[0])
                        m_ = re.match(r"word(\d+)_(\d+)$", a_)
                        if m_:
                            return [(st_, word_eq[int(m_.group(1))][int(m_.group(2))])]
                        m_ = re.match(r"value:attrvalue(\d+)$", a_)
                        if m_:
                            return [(st_, val_eq[int(m_.group(1))])]
                        return None
                    if re.search(r"QualName::expanded$", c):
                        return [(st_, VAgg("ExpandedName", None, [VRef("val", VOpaque("Namespace", "ns")), VRef("val", VOpaque("Atom", "ellocal"))], ["ns", "local"]))]
                    if re.search(r"Atom<LocalNameStaticSet> as Deref>::deref$", c):
                        return [(st_, VRef("val", VOpaque("str", "elname_str")))]
                    if re.search(r"^<&String as PartialEq<&str>>::eq$", c):
                        return [(st_, name_eq)]
                    return orig(exe_, st_, f_, bb_, callee, args, dest_ty)
                summaries.summarize = summ
                try:
                    outs = exe.run(f.name, {1: VRef("val", comps), 2: VRef("val", VOpaque("Rc<Node>", "the_node"))}, st)
                finally:
                    summaries.summarize = orig
                total += len(outs)
                if not outs:
                    raise Inconclusive("no path returned for %s" % comp)
                if comp == "Class":
                    hit = z3.Or(*[z3.And(is_cls[k].e, z3.Or(word_eq[k][0].e, word_eq[k][1].e)) for k in range(n_attrs)]) if n_attrs else z3.BoolVal(False)
                    want = z3.And(z3.BoolVal(is_element), hit, rest.e)
                    what = "a class selector matches elements that carry the class among the words of their class attribute"
                elif comp == "Hash":
                    hit = z3.Or(*[z3.And(is_id[k].e, val_eq[k].e) for k in range(n_attrs)]) if n_attrs else z3.BoolVal(False)
                    want = z3.And(z3.BoolVal(is_element), hit, rest.e)
                    what = "an id selector matches elements whose id attribute is that id"
                elif comp == "Element":
                    want = z3.And(z3.BoolVal(is_element), name_eq.e, rest.e)
                    what = "an element selector matches elements of that name"
                else:
                    want = rest.e
                    what = "* matches whatever the rest of the selector matches"
                for (s2, ret) in outs:
                    if not isinstance(ret, VBool):
                        raise Inconclusive("do_matches did not return a boolean")
                    post(exe, s2, ret.e == want, f.name, "%s (and the rest of the selector must match the same node)%s" % (what, "" if is_element else "; never a non-element node"))
    # the sibling index of :nth-child: the number of matching element siblings up to and including the node
    idx_local = int(f.debug["idx"][1:])
    stop = None
    for name in f.order:
        raw = " ".join(f.blocks[name].raw)
        if re.search(r"_(\d+) = copy _%d;\s*_\d+ = Eq\(move _\1, const 0_i32\)" % idx_local, raw) and not f.blocks[name].cleanup:
            stop = name
    if stop is None:
        raise Inconclusive("could not locate the end of the sibling loop")
    for n_sib in (1, 2, 3):
        exe = make_exe(loop_bound=3 * n_sib + 6)
        st = State()
        is_el = [exe.fresh("bool", "sib%d.is_element" % k) for k in range(n_sib)]
        sel_ok = [exe.fresh("bool", "sib%d.matches_of" % k) for k in range(n_sib)]
        me = exe.fresh("u8", "node.position")
        st.pc.append(z3.ULT(me.e, n_sib))
        for k in range(n_sib):
            st.pc.append(z3.Implies(me.e == k, is_el[k].e))     # the node itself is an element
        sibs = VVec([VOpaque("Rc<Node>", "sib%d" % k) for k in range(n_sib)])
        comps = VVec([VAgg("SelectorComponent::NthChild", "NthChild", [exe.fresh("i32", "a"), exe.fresh("i32", "b"), VOpaque("Selector", "of_selector")], ["a", "b", "sel"]),
                      VOpaque("SelectorComponent", "next_component")])
        parent = VAgg("Node", None, [VOpaque("Cell", "pp"), VOpaque("RefCell<Vec<Rc<Node>>>", "kids"), VOpaque("NodeData", "pdata")])

        def nm2(exe_, st_, v):
            while isinstance(v, VRef):
                v = exe_.deref(st_, v)
            return getattr(v, "name", None) or ""

        def summ2(exe_, st_, f_, bb_, callee, args, dest_ty):
            c = callee.strip()
            if re.search(r"core::slice::<impl \[SelectorComponent\]>::first$", c):
                return [(st_, VAgg("Option::Some", "Some", [VRef("val", comps.elems[0])]))]
            if re.search(r"::get_parent$", c):
                return [(st_, VAgg("Option::Some", "Some", [VOpaque("Rc<Node>", "the_parent")]))]
            if re.search(r"^<Rc<Node> as Deref>::deref$", c):
                n_ = nm2(exe_, st_, args[0])
                m_ = re.match(r"sib(\d+)$", n_)
                if m_:
                    k = int(m_.group(1))
                    el = st_.clone()
                    el.pc.append(is_el[k].e)
                    ne = st_.clone()
                    ne.pc.append(z3.Not(is_el[k].e))
                    mk = lambda variant, idx_: VRef("val", VAgg("Node", None, [VOpaque("Cell", "p"), VOpaque("RefCell", "c"),
                                                                              VAgg("NodeData::" + variant, variant, [VOpaque("x", "payload%d" % idx_)] * (4 if variant == "Element" else 1))]))
                    return [(el, mk("Element", k)), (ne, mk("Text", k))]
                return [(st_, VRef("val", parent))]
            if re.search(r"^RefCell::<Vec<Rc<Node>>>::borrow$", c):
                return [(st_, VRef("val", sibs))]
            if re.search(r"^<Ref<'_, Vec<Rc<Node>>> as Deref>::deref$", c):
                return [(st_, args[0])]
            if re.search(r"Selector::matches$", c):
                m_ = re.match(r"sib(\d+)$", nm2(exe_, st_, args[1]))
                return [(st_, sel_ok[int(m_.group(1))])] if m_ else None
            if re.search(r"Rc::<Node>::ptr_eq$", c):
                m_ = re.match(r"sib(\d+)$", nm2(exe_, st_, args[0]))
                return [(st_, VBool(me.e == int(m_.group(1))))] if m_ else None
            return orig(exe_, st_, f_, bb_, callee, args, dest_ty)
        summaries.summarize = summ2
        try:
            outs = exe.run(f.name, {1: VRef("val", comps), 2: VRef("val", VOpaque("Rc<Node>", "the_node"))}, st, stop_at={stop})
        finally:
            summaries.summarize = orig
        total += len(outs)
        if not outs:
            raise Inconclusive("sibling loop: no path returned")
        # reference: count of siblings k <= me that are elements matching the `of` selector; the node itself must match
        def cnt():
            tot = z3.BitVecVal(0, 32)
            for k in range(n_sib):
                tot = tot + z3.If(z3.And(z3.ULE(z3.BitVecVal(k, 8), me.e), is_el[k].e, sel_ok[k].e), z3.BitVecVal(1, 32), z3.BitVecVal(0, 32))
            return tot
        me_ok = z3.Or(*[z3.And(me.e == k, sel_ok[k].e) for k in range(n_sib)])
        n_stop = 0
        for (s2, ret) in outs:
            if isinstance(ret, tuple) and ret[0] == "stopped":
                n_stop += 1
                iv = s2.frames[ret[2]].get(idx_local)
                if not isinstance(iv, VInt):
                    raise Inconclusive("sibling index not recovered")
                post(exe, s2, me_ok, f.name, "nth-child: the index is only used when the node itself matches the `of` selector")
                post(exe, s2, iv.e == cnt(), f.name, "nth-child: the index is the number of matching element siblings up to and including the node (%d siblings)" % n_sib)
            elif isinstance(ret, VBool):
                post(exe, s2, z3.And(z3.Not(ret.e), z3.Not(me_ok)), f.name, "nth-child: gives up early only when the node itself does not match the `of` selector")
            else:
                raise Inconclusive("sibling loop: unexpected result")
        if not n_stop:
            raise Inconclusive("sibling loop: the index is never computed")
    return {"function": f.name, "paths": total}


ALL = [
    Spec("table_col_width", ["C06", "C02", "C01"], spec_table_col_width,
         functions=["render_table_tree::{closure} |sz| (column width formula)"],
         bounds="size, min_width, width, tot_size: any usize with width >= 1, tot_size >= size, min_width <= size",
         assumptions=["preconditions are those the caller establishes: side-by-side layout only when width >= 1; tot_size is the sum of the column sizes",
                      "std::cmp::{min,max} by contract"],
         replay=replay_table_col_width),
    Spec("nth_child_arith", ["C20"], spec_nth_child_arith,
         functions=["Selector::do_matches (NthChild arm, blocks after the sibling-counting loop)"],
         bounds="a, b any i32; 0 <= idx < 2^30; result of matching the remaining components an arbitrary boolean",
         assumptions=["the sibling loop (DOM traversal) is not encoded: idx is an arbitrary count",
                      "i32 operator traits panic on overflow in the debug/test profile"],
         replay=replay_nth_child),
    Spec("into_cells", ["C02", "C05", "C06", "C03"], spec_into_cells,
         functions=["RenderTableRow::into_cells", "RenderNode::new_styled (inlined)"],
         bounds="rows of 1-3 cells over 3-4 columns; every colspan in 1..=ncols with sum <= ncols; column widths <= 2^32; both layouts",
         assumptions=["cells are models: colspan symbolic, content/style opaque; Vec / IntoIter / slice sum by contract over vectors of concrete length",
                      "stacked layout: all column widths equal the table width (as render_table_tree sets them)"],
         replay=replay_into_cells),
    Spec("width_zero", ["C11", "C01"], spec_width_zero,
         functions=["RenderTree::render_with_context (entry)"], bounds="width = 0, everything else arbitrary",
         assumptions=["calls made after the guard are unconstrained (they must not be reached)"], replay=replay_width_zero),
    Spec("ol_numbering", ["C07", "C01"], spec_ol_numbering,
         functions=["calc_ol_prefix_size (max_number computation)", "do_render_node Ol arm (max_number computation)"],
         bounds="start any i64, num_items <= 2^32",
         assumptions=["only the integer slice that computes the last item number is executed; decorator calls are outside"],
         replay=replay_ol),
    Spec("insert_child", ["C14", "C03"], spec_insert_child, replay=lambda fd, vals, info: {"harness": "m_insert_child", "values": [[0]]},
         functions=["insert_child", "RenderNode::new (inlined)"],
         bounds="18 node kinds x {Start, End}; containers hold two opaque children; table kinds hold one row / cell",
         assumptions=["children are opaque nodes (identity tracked by name)", "Vec::insert / push by contract"]),
    Spec("style_unwind", ["C09"], spec_style_unwind, replay=lambda fd, vals, info: {"harness": "m_cell_unwind", "values": [[0]]},
         functions=["PushedStyleInfo::apply", "PushedStyleInfo::unwind"],
         bounds="every combination of colour / background / white-space / preformat (style opaque, flags symbolic)",
         assumptions=["renderer push_/pop_ calls are observed (call order and presence), not executed"]),
    Spec("cell_unwind_order", ["C09"], spec_cell_unwind_order, replay=lambda fd, vals, info: {"harness": "m_cell_unwind", "values": [[0]]},
         functions=["render_table_cell::{closure#0}"], bounds="all paths of the closure",
         assumptions=["calls are observed, not executed"]),
    Spec("routes_width", ["C10"], spec_routes_width, replay=lambda fd, vals, info: {"harness": "m_routes_width", "values": [[0]]},
         functions=["Config::render_to_string", "Config::render_to_lines", "Config::string_from_read", "Config::lines_from_read"],
         bounds="any width; success path of every `?`",
         assumptions=["callees are observed (arguments captured), not executed"]),
    Spec("prefix_width_quote", ["C16", "C01"], spec_prefix_width_quote,
         functions=["do_render_node (BlockQuote arm: from quote_prefix() to width_minus())"],
         bounds="estimate and prefix lengths any usize < 2^32 / 2^40; the prefix's byte length and display width are independent values",
         assumptions=["calc_size_estimate's guarantee: prefix_size = display width of the prefix, min_width >= prefix_size",
                      "String::len and UnicodeWidthStr::width return unrelated integers (a custom decorator may return any string)"],
         replay=replay_prefix_width),
    Spec("wrap_flush_word", ["C04", "C02", "C01"], spec_wrap_flush_word,
         functions=["WrappedBlock::flush_word", "WrappedBlock::flush_line", "WrappedBlock::force_flush_line", "WhiteSpace::do_wrap"],
         bounds="one call from an arbitrary valid block state (width, line length, pending space, word width <= 2^20), all three white-space modes",
         assumptions=["TaggedLine operations by contract (decided on the real code by the Kani harnesses t4_*)",
                      "flush_word_hard_wrap by contract: leaves a line that fits (or any line when overflow is allowed), may emit lines, empties the word",
                      "representation invariant of WrappedBlock assumed for the start state (line.len <= width, pending space has a tag, ...)"],
         replay=replay_wrap),
    Spec("wrap_add_text_normal", ["C04", "C13", "C02"], spec_wrap_add_text_normal,
         functions=["WrappedBlock::add_text", "WrappedBlock::flush_word", "WrappedBlock::flush_line", "WrappedBlock::force_flush_line"],
         bounds="any valid block state, then two characters from {a, space, newline, tab, wide CJK, combining mark, NBSP}; normal white-space mode",
         assumptions=["as wrap_flush_word"], replay=replay_wrap),
    Spec("wrap_add_text_pre", ["C12", "C01", "C02"], spec_wrap_add_text_pre,
         functions=["WrappedBlock::add_text (preserve-whitespace branch)", "WrappedBlock::flush_word", "WrappedBlock::flush_line", "WrappedBlock::progress_width"],
         bounds="any valid block state with width <= 2^20 (including 0), pending space <= 3, then one character from {a, space, newline, wide CJK}; pre and pre-wrap modes",
         assumptions=["as wrap_flush_word"], replay=replay_wrap),
    Spec("wrap_add_text_tab", ["C12", "C01"], spec_wrap_add_text_tab,
         functions=["WrappedBlock::add_text (tab-stop loop)", "WrappedBlock::flush_line", "WrappedBlock::progress_width"],
         bounds="any valid block state with width <= 20 (including 0), no pending word, then a tab; pre and pre-wrap modes; loop bound 30",
         assumptions=["as wrap_flush_word"], replay=replay_wrap),
    Spec("dom_constructors", ["C03", "C08"], spec_dom_constructors,
         functions=["process_dom_node::{closure#N} for every element kind (the reducers that build the render node from the children)"],
         bounds="three opaque children per element; shallow emptiness of each child an arbitrary boolean",
         assumptions=["children are opaque nodes; is_shallow_empty returns an arbitrary boolean per child",
                      "the id / pseudo-content wrappers (which call the inner constructor through a boxed FnOnce) are skipped"],
         replay=lambda fd, vals, info: {"harness": "m_dom_children", "values": [[0]]}),
    Spec("nth_parse", ["C17", "C20", "C01"], spec_nth_parse,
         functions=["parse_nth_child_args::{closure} (the three an+b value closures)"],
         bounds="digit strings of any length (integer parsing either yields a non-negative i32 or fails); any sign",
         assumptions=["<i32 as FromStr>::from_str by contract on digit-only input", "the nom combinators around the closures are not executed"],
         replay=lambda fd, vals, info: {"harness": "m_nth_parse" if fd.kind == "panic" else "m_descendant_self", "values": [[0]]}),
    Spec("size_estimate_arms", ["C11", "C07", "C16"], spec_size_estimate_arms,
         functions=["RenderNode::calc_size_estimate (container, link, blockquote, ul, dd, header, ol, break, fragment arms)",
                    "SizeEstimate::add", "SizeEstimate::add_hor"],
         bounds="two children with arbitrary estimates (< 2^30), arbitrary prefix display width (< 2^20)",
         assumptions=["children's estimates are arbitrary symbolic values (the recursion is cut)", "UnicodeWidthStr::width / calc_ol_prefix_size return an arbitrary width",
                      "the Text / Img arm (character loop) is not covered"],
         replay=lambda fd, vals, info: {"harness": ("m_prefix_estimate" if "prefix measured" in fd.msg else "m_link_min_width"), "values": [[0]]}),
    Spec("flush_wrapping_frags", ["C14"], spec_flush_wrapping_frags,
         functions=["SubRenderer::flush_wrapping", "SubRenderer::extend_lines", "SubRenderer::add_line"],
         bounds="one marker already waiting, one new trailing marker, the block flushes 0 or 1 text lines",
         assumptions=["WrappedBlock::{take_trailing_fragments, into_lines} return the given markers / lines (the block itself is covered by the wrap specs)",
                      "a line under assembly is a list of elements; LinkedList::push_back is observed"],
         replay=lambda fd, vals, info: {"harness": "m_frag_nested", "values": [[0]]}),
    Spec("prefix_width_ul", ["C16"], spec_prefix_width_ul,
         functions=["do_render_node::{closure} (Ul item: pop, indent, append_subrender)", "do_render_node (prefix_len)"],
         bounds="byte length and display width of the bullet independent values < 2^20",
         assumptions=["String::len and UnicodeWidthStr::width return unrelated integers"],
         replay=lambda fd, vals, info: {"harness": "m_prefix_width", "values": [[1]]}),
    Spec("strikeout_affix", ["C16", "C15"], spec_strikeout_affix,
         functions=["SubRenderer::end_strikeout", "SubRenderer::start_strikeout"],
         bounds="unicode strikeout flag symbolic", assumptions=["calls are observed (order), not executed"],
         replay=lambda fd, vals, info: {"harness": "m_strike_affix", "values": [[0]]}),
    Spec("css_token_progress", ["C17", "C01"], spec_css_token_progress,
         functions=["css::parser::parse_token", "is_ident_start", "is_digit"],
         bounds="any first character (any Unicode scalar), any remaining length; every match arm of the tokenizer",
         assumptions=["strings are (offset, length) slices of the stylesheet", "sub-parsers either fail or consume at least one byte (their own obligation)"],
         replay=lambda fd, vals, info: {"harness": "m_css_progress", "values": [le_bytes(int(vals.get("first_char", 35)), 4)]}),
    Spec("selector_combinators", ["C20"], spec_selector_combinators,
         functions=["Selector::do_matches (CombChild and CombDescendant arms)"],
         bounds="the element may or may not have a parent; the results of the recursive matches are arbitrary booleans",
         assumptions=["Node::get_parent returns an arbitrary optional parent; recursive do_matches calls are observed (their arguments) and return arbitrary booleans"],
         replay=lambda fd, vals, info: {"harness": "m_descendant_self", "values": [[0]]}),
    Spec("display_none_decls", ["C18"], spec_display_none_decls,
         functions=["css::styles_from_properties"],
         bounds="one declaration of any kind; any two among height / max-height / overflow / overflow-y / display; any three among the first four; all value enums symbolic, zero-ness of a length an arbitrary boolean",
         assumptions=["declarations are opaque values with symbolic enum discriminants; floating point lengths are opaque, `== 0.0` is an arbitrary boolean"],
         replay=lambda fd, vals, info: {"harness": "m_display_none", "values": [[0]]}),
    Spec("ident_case_fold", ["C17"], spec_ident_case_fold,
         functions=["css::parser::nmstart_char", "css::parser::nmchar_char"],
         bounds="any first character (any Unicode scalar value), any remainder",
         assumptions=["str::chars / Chars::next / Chars::as_str / char::to_ascii_lowercase follow their std contracts"],
         replay=lambda fd, vals, info: {"harness": "m_css_case", "values": [[0]]}),
    Spec("shallow_empty_sound", ["C03", "C13", "C08"], spec_shallow_empty_sound,
         functions=["RenderNode::is_shallow_empty"],
         bounds="every node kind with children, 0-2 children of arbitrary emptiness",
         assumptions=["text arms: str::trim returns a string of arbitrary length not longer than its argument (string contents are not modelled)",
                      "a recursive call on a child returns that child's (arbitrary) emptiness"],
         replay=lambda fd, vals, info: {"harness": "m_shallow_empty", "values": [[0]]}),
    Spec("value_token_end", ["C17"], spec_value_token_end,
         functions=["css::parser::parse_token_not_semicolon"],
         bounds="any token returned by parse_token (all 23 kinds), any input",
         assumptions=["parse_token returns an arbitrary token or an error", "derived PartialEq on Token compares discriminants for unit variants"],
         replay=lambda fd, vals, info: {"harness": "m_css_final_semicolon", "values": [[0]]}),
    Spec("subrender_prefix_lines", ["C07", "C16"], spec_subrender_prefix_lines,
         functions=["SubRenderer::append_subrender::{closure#0}"],
         bounds="one line of either kind; emptiness of the line and of the prefix arbitrary",
         assumptions=["TaggedLine::{insert_front,push,new} and the string conversions are observed, not executed (t4_* decide insert_front on the real code)",
                      "the pairing of lines with prefixes (zip) is std"],
         replay=lambda fd, vals, info: {"harness": "m_prefix_blank_lines", "values": [[0]]}),
    Spec("wrap_hard_wrap", ["C02", "C04", "C03", "C01", "C14", "C11"], spec_wrap_hard_wrap,
         functions=["WrappedBlock::flush_word_hard_wrap", "WrappedBlock::force_flush_line"],
         bounds="word of 1-2 pieces of 1-2 characters from {a, e-acute, a wide CJK character, a combining mark}, optional fragment marker between; any block width <= 2^20, any line position",
         assumptions=["TaggedLine contracts of section 9.1; strings are sequences of symbolic characters; slicing forks over character boundaries"],
         replay=replay_hard_wrap),
    Spec("fmt_links_wrap", ["C02", "C08"], spec_fmt_links_wrap,
         functions=["SubRenderer::fmt_links"],
         bounds="one footnote line of 1-2 tagged pieces of 1-2 characters from {a, e-acute, a wide CJK character, a combining mark}; any width <= 2^20 not smaller than the widest character",
         assumptions=["strings are sequences of symbolic characters; TaggedLine::push_str adds the display width (t4_tagged_push_str decides that on the real code)",
                      "str::replace of newline is the identity on the alphabet; add_line is observed, not executed"],
         replay=replay_fmt_links),
    Spec("strikeout_filter", ["C15"], spec_strikeout_filter,
         functions=["filter_text_strikeout"],
         bounds="three characters from {a, space, newline, tab, no-break space, e-acute, a wide CJK character, a combining mark}",
         assumptions=["strings are sequences of symbolic characters; UnicodeWidthChar::width is the width model; char::is_whitespace is the "
                      "whitespace model of the wrap specs (the same predicate add_text breaks words on)"],
         replay=lambda fd, vals, info: {"harness": "m_strike_layout", "values": [[0]]}),
    Spec("columns_join", ["C05", "C06", "C02"], spec_columns_join,
         functions=["SubRenderer::append_columns_with_borders"],
         bounds="2-3 columns of 0-3 lines each (text lines and border lines), widths 1..2^20",
         assumptions=["TaggedLine / BorderHoriz operations are contracts (decided on the real code by the t3_* and t4_* Kani harnesses)"],
         replay=lambda fd, vals, info: {"harness": "m_columns", "values": [[0]]}),
    Spec("wrap_hard_wrap_deep", ["C02", "C04", "C03", "C01", "C14"], spec_wrap_hard_wrap_deep, tier="thorough",
         functions=["WrappedBlock::flush_word_hard_wrap", "WrappedBlock::force_flush_line"],
         bounds="word of 1-3 pieces of 1-3 characters (5 characters in all) from {a, e-acute, a wide CJK character, a combining mark}, optional fragment markers; any block width <= 2^20, any line position",
         assumptions=["as wrap_hard_wrap"], replay=replay_hard_wrap),
    Spec("dom_text_readonly", ["C10", "C03"], spec_dom_text_readonly,
         functions=["process_dom_node (text, comment and doctype arms)", "RenderNode::new"],
         bounds="one DOM node of each leaf kind",
         assumptions=["Rc / RefCell / Tendril operations are observed by name; the element arm is covered by dom_constructors"],
         replay=lambda fd, vals, info: {"harness": "m_dom_reuse", "values": [[0]]}),
    Spec("computed_style_sources", ["C19", "C18"], spec_computed_style_sources,
         functions=["StyleData::computed_style"],
         bounds="one rule per sheet (agent, user, author) with one declaration, 0-2 attributes named style / color / bgcolor / other; matching, importance and the document-CSS switch symbolic",
         assumptions=["Selector::matches is an arbitrary boolean per rule; merge_computed_style is observed, not executed (its cascade is decided by r1_cascade_*)",
                      "DOM accessors (Rc, RefCell, Atom comparison, Tendril) follow their std / html5ever contracts; attribute names of an element are distinct"],
         replay=lambda fd, vals, info: {"harness": ("m_display_none" if "only when document CSS" in fd.msg or "exactly when document CSS" in fd.msg
                                                    else "m_inline_important"), "values": [[0]]}),
    Spec("ol_marker_columns", ["C16", "C07", "C02"], spec_ol_marker_columns,
         functions=["calc_ol_prefix_size", "do_render_node (Ol arm: marker column)", "do_render_node (Ol arm: per-item closure)"],
         bounds="any start and item count; a marker is a string whose byte length and display width are independent symbolic values",
         assumptions=["strings are (display width, byte length) pairs; format! is not modelled (its result is an arbitrary string)",
                      "every item's marker is at most as wide as the marker column (r4_ol_prefix_is_max decides that for decimal markers)"],
         replay=lambda fd, vals, info: {"harness": "m_ol_prefix_width", "values": [[2]]}),
    Spec("colspan_bounded", ["C01", "C06"], spec_colspan_bounded,
         functions=["td_to_render_tree", "tbody_to_render_tree (per-cell and fold closures of the column count)"],
         bounds="0-2 attributes, any parsed value; fold step from any partial count of a row with fewer than 2^32 cells",
         assumptions=["str::parse::<usize> returns any value or an error; DOM accessors follow their contracts",
                      "the column arithmetic of RenderTable::new downstream is outside this spec"],
         replay=lambda fd, vals, info: {"harness": "m_colspan_huge", "values": [[0]]}),
    Spec("inline_text_tags", ["C09", "C13"], spec_inline_text_tags,
         functions=["SubRenderer::add_inline_text"],
         bounds="0-1 text filters; block-end flag, <pre> depth, whitespace mode and the text's whitespace-only-ness symbolic",
         assumptions=["WrappedBlock::add_text is observed (its behaviour is the subject of the wrap_* specs); start_block clears the block-end flag"],
         replay=lambda fd, vals, info: {"harness": "m_inline_tags", "values": [[0]]}),
    Spec("table_children_kept", ["C03"], spec_table_children_kept,
         functions=["table_to_render_tree::{closure#0}", "RenderNode::new_styled"],
         bounds="0-3 children: row groups of two rows each and other nodes of arbitrary emptiness",
         assumptions=["RenderTable::new is observed, not executed; Vec::extend appends"],
         replay=lambda fd, vals, info: {"harness": ("m_table_caption" if "dropped only if it has no content" in fd.msg else "m_table_sections"), "values": [[0]]}),
    Spec("inline_arms_paired", ["C09", "C08"], spec_inline_arms_paired,
         functions=["do_render_node (Text, Container, Link, Em, Strong, Strikeout, Code arms and their after-children closures)"],
         bounds="one node of each kind with two opaque children; renderer calls succeed or fail arbitrarily",
         assumptions=["renderer methods and PushedStyleInfo::{apply,unwind} are observed by name (their own contracts are t5_annotation_stack, style_unwind, link_footnotes)",
                      "tree_map_reduce renders the children between the arm and its closure"],
         replay=lambda fd, vals, info: {"harness": ("m_link_footnotes" if fd.msg.startswith("Link") else "m_inline_tags"), "values": [[0]]}),
    Spec("at_rule_skip", ["C17"], spec_at_rule_skip,
         functions=["css::parser::skip_to_end_of_statement"],
         bounds="every sequence of 4 (thorough: 5) tokens over {identifier, ( ) [ ] { } ;}, then end of input",
         assumptions=["parse_token delivers the scripted tokens; derived PartialEq on Token compares discriminants for bracket tokens"],
         replay=lambda fd, vals, info: {"harness": "m_at_rule_skip", "values": [[0]]}),
    Spec("doc_stylesheets_separate", ["C18", "C17"], spec_doc_stylesheets_separate,
         functions=["css::dom_extract::dom_to_stylesheet"],
         bounds="0-3 style elements with opaque texts; each parse succeeds or fails arbitrarily",
         assumptions=["tree_map_reduce delivers the texts of the style elements in document order (extract_style_nodes / combine_vecs are not executed; "
                      "tree_traversal decides the order of the driver)", "StyleData::add_author_css is observed"],
         replay=lambda fd, vals, info: {"harness": "m_style_elements", "values": [[0]]}),
    Spec("ruleset_whitespace", ["C17"], spec_ruleset_whitespace,
         functions=["css::parser::parse_ruleset (the parser sequence it builds for nom::sequence::tuple)"],
         bounds="none (the sequence is a constant of the function); decided by evaluation, no solver query is needed",
         assumptions=["nom's tuple runs its parsers in order; skip_optional_whitespace skips whitespace and comments (not executed here)"],
         replay=lambda fd, vals, info: {"harness": "m_css_ws", "values": [[0]]}),
    Spec("routes_same_lines", ["C10"], spec_routes_same_lines,
         functions=["SubRenderer::into_lines", "SubRenderer::into_string"],
         bounds="a renderer with an opaque list of lines (into_lines) / two opaque lines (into_string); flush_wrapping succeeds or fails arbitrarily",
         assumptions=["flush_wrapping is observed: both routes call the same function on the same state (flush_wrapping_frags decides what it does)",
                      "RenderLine::to_string is observed (line_routes_agree decides that it agrees with into_tagged_line)"],
         replay=lambda fd, vals, info: {"harness": "m_routes_lines", "values": [[0]]}),
    Spec("frag_from_id", ["C14"], spec_frag_from_id,
         functions=["process_dom_node (element arm after the dispatch: id / name lookup, wrapping of Nothing / Finished / PendingChildren; the wrapping constructor closure)"],
         bounds="elements hr (nothing), br (finished), em and div (pending) with one attribute that is or is not the id; the element's own constructor answers None, Some or an error",
         assumptions=["insert_child is observed (insert_child decides what it does); equality of the attribute name with \"id\" is an arbitrary boolean; no ::before / ::after content"],
         replay=lambda fd, vals, info: {"harness": "m_frag_from_id", "values": [[0]]}),
    Spec("sup_children_kept", ["C03"], spec_sup_children_kept,
         functions=["do_render_node (Sup arm) and its helper sup_digits"],
         bounds="1, 2 and 3 opaque children (any node kinds, any text)",
         assumptions=["whether a text consists of digits is an arbitrary boolean; the replacement string is opaque; pending2 is observed"],
         replay=lambda fd, vals, info: {"harness": "m_sup_children", "values": [[0]]}),
    Spec("frag_block_width", ["C14", "C15"], spec_frag_block_width,
         functions=["<SubRenderer<D> as Renderer>::record_frag_start", "get_wrapping_or_insert and its closure"],
         bounds="no block open; width, maximum wrap width (present or absent), padding and overflow options symbolic",
         assumptions=["Option::get_or_insert_with on None calls its closure; WrappedBlock::new is observed (t2_wrap_width decides the same formula under Kani)"],
         replay=lambda fd, vals, info: {"harness": "m_frag_layout", "values": [[0]]}),
    Spec("selector_entry", ["C20"], spec_selector_entry,
         functions=["Selector::matches"],
         bounds="component lists of 0, 1, 3, 3 and 5 components (class / element / id / star compounds, child and descendant combinators) with opaque names",
         assumptions=["Selector::do_matches is observed (argument and an arbitrary boolean result); string comparisons are arbitrary booleans"],
         replay=lambda fd, vals, info: {"harness": "m_selector_entry", "values": [[0]]}),
    Spec("block_arms_depth", ["C09", "C19", "C07"], spec_block_arms_depth,
         functions=["do_render_node (Block, Header, Div, BlockQuote, Ul, Ol, ListItem, Dl, Dt, Dd, Break, FragStart arms and the closures "
                    "tree_map_reduce calls for them: prefn, postfn, cons)"],
         bounds="one node of each kind with one opaque child; renderer calls succeed or fail arbitrarily; minimum width estimate 8..1000",
         assumptions=["PushedStyleInfo::{apply,unwind}, TextRenderer::{push,pop} are observed by name (style_unwind and t5_annotation_stack decide what they do)",
                      "tree_map_reduce calls prefn, the child, postfn, then cons (tree_traversal)"],
         replay=lambda fd, vals, info: {"harness": "m_block_colour_leak", "values": [[0]]}),
    Spec("finalise_entries", ["C08"], spec_finalise_entries,
         functions=["TextDecorator::finalise (default method) and its closure", "SubRenderer::finalise"],
         bounds="0, 1, 3 and 4 recorded links with opaque targets (arbitrary strings, possibly empty or equal); footnote option symbolic",
         assumptions=["format! is observed through its arguments and template (core::fmt is not executed); TaggedLine::from_string keeps the string"],
         replay=lambda fd, vals, info: {"harness": "m_footnote_list", "values": [[0]]}),
    Spec("element_dispatch", ["C03", "C13"], spec_element_dispatch,
         functions=["process_dom_node (Element arm: the match on the expanded name, up to the constructor it selects)",
                    "process_dom_node::{closure#k} (the variant each constructor closure builds)"],
         bounds="namespace and local-name atoms are two unconstrained 64-bit values; the expected table covers the 44 names with an arm "
                "of their own that fit an inline atom (all but blockquote) and 9 sample names without one; no attributes, no ::before/::after content",
         assumptions=["string_cache packs names of at most 7 bytes inline (tag 1, length in bits 4-7, bytes from bit 8) and the XHTML namespace is "
                      "static atom 0 (value 2): checked natively by m_element_dispatch on every replay",
                      "static atoms (names of 8 bytes and more, e.g. blockquote) are outside the claim",
                      "pending / pending_noempty and the four table functions are observed, not executed (their closures are dom_constructors' subject)"],
         replay=lambda fd, vals, info: {"harness": "m_element_dispatch",
                                        "values": [le_bytes(int(vals.get("local_atom", 0)) if fd.tag == "name" else 0, 8)]}),
    Spec("hidden_element_nothing", ["C18"], spec_hidden_element_nothing,
         functions=["process_dom_node (element arm up to the dispatch on the element name)"],
         bounds="one element; its computed display arbitrary",
         assumptions=["computed_style is the subject of computed_style_sources / display_none_decls; DOM accessors by contract"],
         replay=lambda fd, vals, info: {"harness": "m_display_none", "values": [[0]]}),
    Spec("wrap_text_preserved_normal", ["C13", "C03", "C04"], spec_wrap_text_preserved_normal,
         functions=["WrappedBlock::{add_text, flush_word, flush_line, force_flush_line}"],
         bounds="any valid block state; 2 characters from {a, space, newline, tab, wide, combining, NBSP} in normal flow",
         assumptions=["as wrap_text_preserved"], replay=replay_wrap),
    Spec("wrap_text_preserved", ["C03", "C04", "C13", "C12"], spec_wrap_text_preserved, tier="thorough",
         functions=["WrappedBlock::{add_text, flush_word, flush_line, force_flush_line, progress_width}"],
         bounds="any valid block state; 2 characters from the wrap alphabets in normal, pre and pre-wrap mode, a tab in pre mode, 3 characters in normal mode",
         assumptions=["the contracts of section 9.1, with the elements of every TaggedLine tracked as a token sequence",
                      "hard wrap is the contract here (it keeps the order: wrap_hard_wrap decides that on its MIR)"],
         replay=replay_wrap),
    Spec("tree_traversal", ["C03", "C07", "C09"], spec_tree_traversal,
         functions=["tree_map_reduce", "tree_map_reduce::{closure#0}"],
         bounds="trees of 1, 4 and 6 nodes (thorough: 8); every node arbitrarily finished / pending its children / nothing; hooks present on every pending node",
         assumptions=["process_node, the hooks and the reducers are scripted and observed; they succeed",
                      "Box / Vec / vec![x] by contract"],
         replay=lambda fd, vals, info: {"harness": "m_ol_numbering", "values": [le_bytes(1, 8), le_bytes(3, 8)]}),
    Spec("line_routes_agree", ["C10"], spec_line_routes_agree,
         functions=["RenderLine::to_string", "RenderLine::into_tagged_line"],
         bounds="a text line and a rule",
         assumptions=["TaggedLine::to_string / BorderHoriz::to_string are observed (same callee on the same value gives the same string)"],
         replay=lambda fd, vals, info: {"harness": "m_routes_width", "values": [[0]]}),
    Spec("selector_simple", ["C20"], spec_selector_simple,
         functions=["Selector::do_matches (Class, Hash, Element, Star arms; sibling loop of the NthChild arm)"],
         bounds="element / non-element node; 0-2 attributes (class / id / other) with two-word values; 1-3 siblings, each arbitrarily element / matching; node at any position",
         assumptions=["atom and string equalities are arbitrary booleans; DOM accessors by contract; the recursive call on the rest of the selector is an arbitrary boolean"],
         replay=lambda fd, vals, info: {"harness": "m_selector_simple", "values": [[0]]}),
    Spec("link_footnotes", ["C08"], spec_link_footnotes,
         functions=["TextRenderer::start_link", "TextRenderer::end_link"],
         bounds="0-2 links already recorded; footnote flag symbolic",
         assumptions=["the sub-renderer's start_link / end_link / add_inline_text succeed and are observed, not executed",
                      "the number shown is the value handed to fmt::Argument::new_display (formatting itself is std)"],
         replay=lambda fd, vals, info: {"harness": "m_link_footnotes", "values": [[0]]}),
    Spec("table_alloc_2col", ["C06", "C02", "C01", "C03"], spec_table_alloc_2,
         functions=["render_table_tree (whole function incl. estimate loop, allocation closures, shrink loop)",
                    "RenderTable::rows", "RenderTableRow::cells", "RenderTableCell::get_size_estimate", "SizeEstimate::max",
                    "render_table_tree::{closure#0..5}", "<SubRenderer as Renderer>::width"],
         bounds="1 row x 2 columns; cell size <= 4, min_width <= size, table width <= 8; raw and border flags symbolic",
         assumptions=["cell size estimates are preset symbolic values", "start_block / add_horizontal_border_width succeed",
                      "into_rows is observed (arguments captured), not executed", "iterator adaptors by contract over vectors of concrete length"],
         replay=replay_table_alloc),
    Spec("table_alloc_1col", ["C01", "C06", "C02"], spec_table_alloc_1,
         functions=["render_table_tree (whole function)"],
         bounds="1 row x 1 column (no separator: the only shape in which a zero table width is not caught by the minimum-width test); cell size <= 4, table width <= 8",
         assumptions=["as table_alloc_2col"], replay=replay_table_alloc),
    Spec("table_alloc_span_only", ["C06", "C03"], spec_table_alloc_span_only,
         functions=["render_table_tree (whole function)"],
         bounds="one row with a single colspan=2 cell over 2 columns; cell size <= 2, table width <= 5",
         assumptions=["as table_alloc_2col"], replay=replay_table_alloc),
    Spec("table_alloc_3col", ["C06", "C02", "C01"], spec_table_alloc_3, tier="thorough",
         functions=["render_table_tree (whole function)"],
         bounds="1 row x 3 columns; cell size <= 2, table width <= 6", assumptions=["as table_alloc_2col"], replay=replay_table_alloc),
    Spec("table_alloc_colspan", ["C06", "C03", "C01"], spec_table_alloc_span, tier="thorough",
         functions=["render_table_tree (whole function)"],
         bounds="2 rows over 2 columns, first row is one colspan=2 cell; cell size <= 2, table width <= 4",
         assumptions=["as table_alloc_2col"], replay=replay_table_alloc),
]
