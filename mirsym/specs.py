"""Specifications checked on html2text's MIR by the symbolic executor.

Each spec: locates real functions / closures / block slices in the MIR dump
(by debug-variable names and statement patterns, never by hard-coded block
numbers), states preconditions over the lazily created symbolic inputs,
executes all paths, and states postconditions.  Findings carry a Z3 model
that `replay` turns into the input vector of a native replay harness.
"""
import os
import re
import subprocess
import tempfile
import time

import z3

from mir import parse_mir, INT_TYPES
from sym import (Executor, State, VInt, VBool, VAgg, VVec, VRef, VOpaque, VUnit, Finding, PathEnd, is_true)


class Context:
    def __init__(self, mir_text, src, tier):
        self.text = mir_text
        self.src = src
        self.tier = tier
        self.funcs = parse_mir(mir_text)
        self.enums = parse_enums(src)
        self.structs = parse_structs(src)

    def find(self, name_re=None, debug=None, first=False):
        """Functions whose name matches and which have all the given debug variable names."""
        out = []
        for name, f in self.funcs.items():
            if name_re and not re.search(name_re, name):
                continue
            if debug and not all(d in f.debug for d in debug):
                continue
            out.append(f)
        return out

    def field(self, struct, field):
        return self.structs[struct].index(field)


def parse_enums(src):
    enums = {}
    for root, _, files in os.walk(os.path.join(src, "src")):
        for fn in files:
            if not fn.endswith(".rs"):
                continue
            text = open(os.path.join(root, fn), errors="replace").read()
            for m in re.finditer(r"enum (\w+)(?:<[^>]*>)?\s*\{(.*?)\n\}", text, re.S):
                body = re.sub(r"//.*", "", m.group(2))
                body = re.sub(r"#\[[^\]]*\]", "", body)
                names = []
                depth = 0
                cur = ""
                for ch in body:
                    if ch in "({[":
                        depth += 1
                    elif ch in ")}]":
                        depth -= 1
                    elif ch == "," and depth == 0:
                        mm = re.match(r"\s*(\w+)", cur)
                        if mm:
                            names.append(mm.group(1))
                        cur = ""
                        continue
                    if depth == 0 or ch in "({[":
                        cur += ch if depth == 0 else ""
                mm = re.match(r"\s*(\w+)", cur)
                if mm:
                    names.append(mm.group(1))
                enums.setdefault(m.group(1), names)
    return enums


def parse_structs(src):
    structs = {}
    for root, _, files in os.walk(os.path.join(src, "src")):
        for fn in files:
            if not fn.endswith(".rs"):
                continue
            text = open(os.path.join(root, fn), errors="replace").read()
            for m in re.finditer(r"struct (\w+)(?:<[^>]*>)?\s*\{(.*?)\n\}", text, re.S):
                body = re.sub(r"//.*", "", m.group(2))
                body = re.sub(r"#\[[^\]]*\]", "", body)
                names = re.findall(r"(?:pub(?:\([^)]*\))?\s+)?(\w+)\s*:", body)
                # keep declaration order, first occurrence of each
                seen = []
                for n in names:
                    if n not in seen:
                        seen.append(n)
                structs.setdefault(m.group(1), seen)
    return structs


class Spec:
    def __init__(self, name, properties, body, tier="quick", functions=None, bounds="", assumptions=None, replay=None):
        self.name, self.properties, self.body, self.tier = name, properties, body, tier
        self.functions = functions or []
        self.bounds = bounds
        self.assumptions = assumptions or []
        self.replay = replay


class Inconclusive(Exception):
    pass


def cvc5_check(query, timeout_s=30):
    s = z3.Solver()
    s.add(*query)
    text = "(set-logic ALL)\n" + s.to_smt2()
    with tempfile.NamedTemporaryFile("w", suffix=".smt2", delete=False) as f:
        f.write(text)
        path = f.name
    try:
        p = subprocess.run(["cvc5", "--lang", "smt2", "--tlimit", str(timeout_s * 1000), "--solve-bv-as-int=sum", path],
                           capture_output=True, text=True, timeout=timeout_s + 10)
        out = p.stdout.strip().split("\n")[0] if p.stdout.strip() else ""
        if "(error" in p.stdout or "(error" in p.stderr:
            return "error"
        return out if out in ("sat", "unsat") else "unknown"
    except Exception:
        return "unknown"
    finally:
        os.unlink(path)


def run_spec(spec, ctx):
    t0 = time.time()
    exe_holder = {}

    def make_exe(**kw):
        e = Executor(ctx.funcs, enums=ctx.enums, **kw)
        exe_holder.setdefault("exes", []).append(e)
        return e

    res = {"spec": spec.name, "properties": spec.properties, "functions_encoded": list(spec.functions),
           "bounds": spec.bounds, "assumptions": list(spec.assumptions)}
    try:
        info = spec.body(ctx, make_exe) or {}
        status = "pass"
        detail = ""
    except Inconclusive as e:
        info = {}
        status = "inconclusive"
        detail = str(e)
    exes = exe_holder.get("exes", [])
    findings = []
    unsupported = []
    obligations = 0
    discharged = 0
    cross = {"agree": 0, "disagree": 0, "cvc5_unknown": 0}
    for e in exes:
        for fd in e.findings:
            if fd.kind == "unsupported":
                unsupported.append("%s %s: %s" % (fd.func[-40:], fd.bb, fd.msg))
            else:
                findings.append((e, fd))
        for ob in e.obligations:
            obligations += 1
            if ob["verdict"] == "unsat":
                discharged += 1
            if ob["verdict"] == "unknown":
                status = "inconclusive"
                detail = "solver returned unknown on: " + ob["msg"]
            # second solver
            v2 = cvc5_check(ob["query"])
            if v2 in ("sat", "unsat"):
                if v2 == ob["verdict"]:
                    cross["agree"] += 1
                elif ob["verdict"] in ("sat", "unsat"):
                    cross["disagree"] += 1
            else:
                cross["cvc5_unknown"] += 1
        if e.unknown:
            status = "inconclusive"
            detail = "solver returned unknown (%d queries)" % len(e.unknown)
    if cross["disagree"]:
        status = "inconclusive"
        detail = "z3 and cvc5 disagree on %d obligations" % cross["disagree"]
    if unsupported and status == "pass":
        status = "inconclusive"
        detail = "unsupported MIR construct: " + unsupported[0]
    fl = []
    if findings and status != "inconclusive":
        status = "fail"
    for (e, fd) in findings:
        rec = {"kind": fd.kind, "function": fd.func, "block": fd.bb, "message": fd.msg, "tag": fd.tag}
        if fd.model is not None:
            vals = dict(fd.model)
            rec["model"] = {k: vals[k] for k in sorted(vals)}
            if spec.replay:
                try:
                    rec["replay"] = spec.replay(fd, vals, info)
                except Exception as ex:  # replay mapping is best-effort
                    rec["replay_error"] = str(ex)
        fl.append(rec)
    if fl:
        detail = "; ".join("%s@%s %s" % (r["kind"], r["block"], r["message"][:70]) for r in fl[:3])
    res.update({
        "result": status, "detail": detail, "findings": fl, "unsupported": unsupported[:10],
        "paths": sum(e.stats.paths for e in exes), "blocks_executed": sum(e.stats.blocks for e in exes),
        "queries": sum(e.stats.queries for e in exes), "solver_s": round(sum(e.stats.solver_s for e in exes), 3),
        "obligations": obligations, "discharged": discharged, "cross_check_cvc5": cross,
        "decided_by": _merge_counts([e.stats.decided_by for e in exes]),
        "summaries_used": sorted(set().union(*[e.stats.summaries for e in exes])) if exes else [],
        "havoc_calls": sorted(set().union(*[e.stats.havoc for e in exes])) if exes else [],
        "inlined": sorted(set().union(*[e.stats.inlined for e in exes])) if exes else [],
        "wall_s": round(time.time() - t0, 2), "info": {k: v for k, v in info.items() if isinstance(v, (str, int, float, list))},
    })
    return res


def _merge_counts(ds):
    out = {}
    for d in ds:
        for k, v in d.items():
            out[k] = out.get(k, 0) + v
    return out


# ----------------------------------------------------------------------------
# helpers for specs
# ----------------------------------------------------------------------------

def the(funcs, what):
    if len(funcs) != 1:
        raise Inconclusive("expected exactly one function for %s, found %d" % (what, len(funcs)))
    return funcs[0]


def post(exe, st, cond, func, msg, tag="postcondition"):
    exe.oblige(st, cond, "postcondition", func, "return", msg, tag=tag)


def u64(v):
    return z3.BitVecVal(v, 64)


def le_bytes(value, nbytes):
    value &= (1 << (8 * nbytes)) - 1
    return [(value >> (8 * i)) & 0xff for i in range(nbytes)]


# ----------------------------------------------------------------------------
# SPEC: table column width formula  (render_table_tree's `.map(|sz| ...)` closure)
# ----------------------------------------------------------------------------

def spec_table_col_width(ctx, make_exe):
    f = the(ctx.find(r"render_table_tree::\{closure", debug=["sz", "width", "tot_size"]), "column width closure")
    exe = make_exe()
    st = State()
    # closure argument _2: &SizeEstimate ; captured &width, &tot_size behind _1
    i_size, i_min = ctx.field("SizeEstimate", "size"), ctx.field("SizeEstimate", "min_width")
    size = exe.fresh("usize", "sz.size")
    minw = exe.fresh("usize", "sz.min_width")
    width = exe.fresh("usize", "width")
    tot = exe.fresh("usize", "tot_size")
    fields = [None, None, None]
    fields[i_size] = size
    fields[i_min] = minw
    fields[ctx.field("SizeEstimate", "prefix_size")] = exe.fresh("usize", "sz.prefix_size")
    sz = VAgg("SizeEstimate", None, fields)
    # captured environment: order of captures follows first use; find it from the debug lines
    cap = {}
    for name in ("width", "tot_size"):
        m = re.search(r"\(\*_1\)\.(\d+)", f.debug[name])
        cap[int(m.group(1))] = VRef("val", width if name == "width" else tot)
    envv = VAgg("closure", None, [cap[k] for k in sorted(cap)])
    # preconditions established by the caller: the side-by-side layout is only computed when
    # width >= 1, and tot_size is the sum of all column sizes (>= this column's size)
    st.pc += [z3.UGE(width.e, u64(1)), z3.UGE(tot.e, size.e), z3.ULE(minw.e, size.e)]
    outs = exe.run(f.name, {1: VRef("val", envv), 2: VRef("val", sz)}, st)
    for (s2, ret) in outs:
        if not isinstance(ret, VInt):
            raise Inconclusive("closure did not return an integer")
        post(exe, s2, z3.ULE(ret.e, size.e), f.name, "a column is never wider than its content estimate")
        post(exe, s2, z3.Implies(size.e == 0, ret.e == 0), f.name, "an empty column gets no width")
        post(exe, s2, z3.Implies(z3.And(size.e != 0, minw.e != 0), ret.e != 0), f.name,
             "a column with content and a non-zero minimum width gets space")
        post(exe, s2, z3.UGE(ret.e, minw.e), f.name, "a column gets at least its minimum width")
    return {"function": f.name, "paths": len(outs)}


def replay_table_col_width(fd, vals, info):
    order = [("sz.size", 8), ("sz.min_width", 8), ("width", 8), ("tot_size", 8)]
    return {"harness": "m_table_col_width", "values": [le_bytes(int(vals.get(k, 0)), n) for k, n in order]}


# ----------------------------------------------------------------------------
# SPEC: nth-child arithmetic in Selector::do_matches (slice after the sibling loop)
# ----------------------------------------------------------------------------

def spec_nth_child_arith(ctx, make_exe):
    f = the(ctx.find(r"do_matches$", debug=["idx", "idx_offset", "a", "b"]), "Selector::do_matches")
    idx_local = int(f.debug["idx"][1:])
    a_local = int(f.debug["a"][1:])
    b_local = int(f.debug["b"][1:])
    # entry: the block that tests `idx == 0` after the loop: `_t = copy _idx; _c = Eq(move _t, const 0_i32)`
    entry = None
    for name in f.order:
        raw = " ".join(f.blocks[name].raw)
        m = re.search(r"_(\d+) = copy _%d;\s*_\d+ = Eq\(move _\1, const 0_i32\)" % idx_local, raw)
        if m and not f.blocks[name].cleanup:
            entry = name
    if entry is None:
        raise Inconclusive("could not locate the `idx == 0` test after the sibling loop")
    exe = make_exe(timeout_ms=60000)
    st = State()
    idx = exe.fresh("i32", "idx")
    a = exe.fresh("i32", "a")
    b = exe.fresh("i32", "b")
    # idx counts element siblings up to and including the node: 0 <= idx, and a document
    # cannot hold 2^31 siblings
    st.pc += [idx.e >= 0, idx.e < (1 << 30)]
    # the selector parser cannot produce i32::MIN coefficients (it negates a parsed magnitude)
    st.pc += [a.e != -(1 << 31), b.e != -(1 << 31)]
    exe.hints = [idx.e <= 8]
    # the recursive call on the remaining components is an uninterpreted boolean
    rest = z3.Bool("rest_matches")
    exe.inputs["rest_matches"] = rest
    import summaries
    orig = summaries.summarize

    def summ(exe_, st_, f_, bb_, callee, args, dest_ty):
        if re.search(r"Selector::do_matches$", callee.strip()):
            return [(st_, VBool(rest))]
        return orig(exe_, st_, f_, bb_, callee, args, dest_ty)
    summaries.summarize = summ
    try:
        env = {idx_local: idx, a_local: VRef("val", a), b_local: VRef("val", b)}
        outs = exe.run(f.name, {}, st, entry=entry, env_overrides=env)
    finally:
        summaries.summarize = orig
    # Functional check under the property's quantifier (|a|, |b| <= 16, idx <= 16): the reference is
    # the finite disjunction  exists n in 0..=32: a*n + b == idx  (no division in the reference).
    small = z3.And(a.e >= -16, a.e <= 16, b.e >= -16, b.e <= 16, idx.e <= 16)
    alts = [a.e * z3.BitVecVal(n, 32) + b.e == idx.e for n in range(0, 33)]
    matches = z3.And(idx.e != 0, z3.Or(*alts))
    for (s2, ret) in outs:
        if not isinstance(ret, VBool):
            raise Inconclusive("slice did not return a boolean")
        s3 = s2.clone()
        s3.pc.append(small)
        post(exe, s3, ret.e == z3.And(matches, rest), f.name,
             ":nth-child(an+b) matches the idx-th element iff idx = a*n+b for some n >= 0")
    return {"function": f.name, "entry": entry, "paths": len(outs)}


def replay_nth_child(fd, vals, info):
    order = [("a", 4), ("b", 4), ("idx", 4)]
    return {"harness": "m_nth_child", "values": [le_bytes(int(vals.get(k, 0)), n) for k, n in order]}


# ----------------------------------------------------------------------------
# SPEC: RenderTableRow::into_cells on rows of model cells
# ----------------------------------------------------------------------------

def _cell(ctx, exe, tag, colspan):
    names = ctx.structs["RenderTableCell"]
    fields = []
    for n in names:
        if n == "colspan":
            fields.append(colspan)
        elif n == "col_width":
            fields.append(VAgg("Option::None", "None", []))
        else:
            fields.append(VOpaque(n, "%s.%s" % (tag, n)))
    return VAgg("RenderTableCell", None, fields, names)


def spec_into_cells(ctx, make_exe):
    f = the(ctx.find(r"::into_cells$", debug=["col_sizes", "vertical", "colspan", "col_width"]), "RenderTableRow::into_cells")
    i_colspan = ctx.field("RenderTableCell", "colspan")
    i_colw = ctx.field("RenderTableCell", "col_width")
    rnames = ctx.structs["RenderTableRow"]
    total_paths = 0
    for ncells, ncols in ((1, 3), (2, 3), (3, 3), (2, 4)):
        for vertical in (False, True):
            exe = make_exe(inline=[r"RenderNode::new_styled$"])
            st = State()
            spans = [exe.fresh("usize", "colspan%d" % k) for k in range(ncells)]
            widths = [exe.fresh("usize", "w%d" % k) for k in range(ncols)]
            for sp in spans:
                st.pc.append(z3.UGE(sp.e, u64(1)))  # RenderTable::new leaves every colspan >= 1
            tot = spans[0].e
            for sp in spans[1:]:
                tot = tot + sp.e
            for sp in spans:
                st.pc.append(z3.ULE(sp.e, u64(ncols)))
            st.pc.append(z3.ULE(tot, u64(ncols)))  # a row never spans more columns than the table has
            for w in widths:
                st.pc.append(z3.ULE(w.e, u64(1 << 32)))
            if vertical:
                # stacked layout: render_table_tree sets every column width to the table width (>= 1)
                for w in widths[1:]:
                    st.pc.append(w.e == widths[0].e)
                st.pc.append(z3.UGE(widths[0].e, u64(1)))
            cells = [_cell(ctx, exe, "cell%d" % k, spans[k]) for k in range(ncells)]
            rfields = []
            for n in rnames:
                if n == "cells":
                    rfields.append(VVec(cells))
                elif n == "col_sizes":
                    rfields.append(VAgg("Option::Some", "Some", [VVec(widths)]))
                else:
                    rfields.append(VOpaque(n, "row." + n))
            row = VAgg("RenderTableRow", None, rfields, rnames)
            outs = exe.run(f.name, {1: row, 2: VBool(z3.BoolVal(vertical))}, st)
            total_paths += len(outs)
            for (s2, ret) in outs:
                if not isinstance(ret, VVec):
                    raise Inconclusive("into_cells did not return a vector (%r)" % (ret,))
                # reference per cell
                start = u64(0)
                kept = []
                for k in range(ncells):
                    sp = spans[k].e
                    if vertical:
                        base = _select(widths, start)
                    else:
                        base = _range_sum(widths, start, start + sp)
                    kept.append((k, base, sp))
                    start = start + sp
                # which cells are present is path dependent; recover by position
                pos = 0
                for (k, base, sp) in kept:
                    present = z3.UGT(base, u64(0))
                    if is_true(z3.simplify(z3.substitute(present))) or exe.feasible(s2, present):
                        pass
                # Walk the returned nodes: each is RenderNode{info: TableCell(cell)}; identify cells by their tag
                seen = []
                for node in ret.elems:
                    cell = _find_cell(node)
                    if cell is None:
                        raise Inconclusive("returned node is not a table cell")
                    tag = cell.fields[ctx.field("RenderTableCell", "content")]
                    k = int(re.match(r"cell(\d+)\.", tag.name).group(1))
                    seen.append(k)
                    base, sp = kept[k][1], kept[k][2]
                    cw = cell.fields[i_colw]
                    if not (isinstance(cw, VAgg) and cw.variant == "Some"):
                        post(exe, s2, z3.BoolVal(False), f.name, "a returned cell has no width assigned")
                        continue
                    got = cw.fields[0].e
                    if vertical:
                        post(exe, s2, z3.ULE(got, widths[0].e), f.name,
                             "a stacked cell is never wider than the table (colspan %d cells)" % ncells)
                        post(exe, s2, z3.UGE(got, u64(1)), f.name, "a stacked cell has a positive width")
                    else:
                        post(exe, s2, got == base + sp - 1, f.name,
                             "cell width = sum of spanned columns + separators between them")
                    post(exe, s2, z3.UGT(base, u64(0)), f.name, "only cells with allocated width are rendered")
                post(exe, s2, z3.BoolVal(seen == sorted(seen)), f.name, "cells keep their left-to-right order")
                # no cell with width is dropped
                for (k, base, sp) in kept:
                    if k not in seen:
                        post(exe, s2, base == 0, f.name, "a cell is skipped only when its columns have zero width")
    return {"function": f.name, "paths": total_paths}


def _select(vals, idx):
    e = vals[-1].e
    for k in range(len(vals) - 2, -1, -1):
        e = z3.If(idx == u64(k), vals[k].e, e)
    return e


def _range_sum(vals, start, end):
    t = u64(0)
    for k, v in enumerate(vals):
        t = t + z3.If(z3.And(z3.ULE(start, u64(k)), z3.ULT(u64(k), end)), v.e, u64(0))
    return t


def _find_cell(node):
    """RenderNode { size_estimate, info: RenderNodeInfo::TableCell(cell), style } -> cell"""
    if isinstance(node, VAgg):
        if node.variant == "TableCell" and node.fields:
            return node.fields[0]
        for fl in node.fields:
            c = _find_cell(fl)
            if c is not None:
                return c
    return None


def replay_into_cells(fd, vals, info):
    # harness draws: vertical(bool) ncells(u8) ncols(u8) colspans[3](usize) widths[4](usize)
    spans = [int(vals.get("colspan%d" % k, 0)) for k in range(3)]
    ws = [int(vals.get("w%d" % k, 0)) for k in range(4)]
    ncells = sum(1 for k in range(3) if ("colspan%d" % k) in vals)
    ncols = sum(1 for k in range(4) if ("w%d" % k) in vals)
    vertical = "stacked" in fd.msg
    v = [[1 if vertical else 0], [ncells], [ncols]]
    v += [le_bytes(s, 8) for s in spans] + [le_bytes(w, 8) for w in ws]
    return {"harness": "m_into_cells", "values": v}


ALL = [
    Spec("table_col_width", ["C06", "C02", "C01"], spec_table_col_width,
         functions=["render_table_tree::{closure} |sz| (column width formula)"],
         bounds="size, min_width, width, tot_size: any usize with width >= 1, tot_size >= size, min_width <= size",
         assumptions=["preconditions are those the caller establishes: side-by-side layout only when width >= 1; tot_size is the sum of the column sizes",
                      "std::cmp::{min,max} by contract"],
         replay=replay_table_col_width),
    Spec("nth_child_arith", ["C20", "C01"], spec_nth_child_arith,
         functions=["Selector::do_matches (NthChild arm, blocks after the sibling-counting loop)"],
         bounds="a, b any i32; 0 <= idx < 2^30; result of matching the remaining components an arbitrary boolean",
         assumptions=["the sibling loop (DOM traversal) is not encoded: idx is an arbitrary count",
                      "i32 operator traits panic on overflow in the debug/test profile"],
         replay=replay_nth_child),
    Spec("into_cells", ["C02", "C05", "C06", "C03"], spec_into_cells,
         functions=["RenderTableRow::into_cells", "RenderNode::new_styled (inlined)"],
         bounds="rows of 1-3 cells over 3-4 columns; every colspan in 1..=ncols with sum <= ncols; column widths <= 2^32; both layouts",
         assumptions=["cells are models: colspan symbolic, content/style opaque; Vec / IntoIter / slice sum by contract over vectors of concrete length",
                      "stacked layout: all column widths equal the table width (as render_table_tree sets them)"],
         replay=replay_into_cells),
]
