"""Summaries of std library functions called from html2text's MIR.

Each summary states the documented contract of the std function, including
its panic conditions (reported as findings when reachable).  Operators that
inherit the caller's overflow checks (`<i32 as Sub>::sub` ...) panic on
overflow in the debug/test profile; those findings carry the tag
'debug-overflow'.
"""
import re
import z3

from sym import (VInt, VBool, VUnit, VAgg, VVec, VSlice, VIter, VRef, VOpaque, PathEnd, ite_value, INT_TYPES,
                 add_ok, sub_ok, mul_ok)


def _deref_all(exe, st, v):
    n = 0
    while isinstance(v, VRef) and n < 4:
        v = exe.deref(st, v)
        n += 1
    return v


def _int(exe, st, v):
    v = _deref_all(exe, st, v)
    if isinstance(v, VInt):
        return v
    return None


def _u64(n):
    return VInt(z3.BitVecVal(n, 64), 64, False)


def summarize(exe, st, f, bb, callee, args, dest_ty):
    c = re.sub(r"\s+", " ", callee.strip())

    # ---- min / max -----------------------------------------------------------
    m = re.search(r"(?:std|core)::cmp::(max|min)::<(\w+)>$", c) or re.search(r"<(\w+) as Ord>::(max|min)$", c)
    if m:
        which = m.group(1) if m.group(1) in ("max", "min") else m.group(2)
        a, b = _int(exe, st, args[0]), _int(exe, st, args[1])
        if a is None or b is None:
            return None
        gt = (a.e > b.e) if a.signed else z3.UGT(a.e, b.e)
        # std: max returns the second argument when equal; min returns the first
        if which == "max":
            return [(st, VInt(z3.If(gt, a.e, b.e), a.bits, a.signed))]
        lt = (b.e < a.e) if a.signed else z3.ULT(b.e, a.e)
        return [(st, VInt(z3.If(lt, b.e, a.e), a.bits, a.signed))]

    # ---- saturating / wrapping / checked integer methods --------------------------
    m = re.search(r"core::num::<impl (\w+)>::(saturating_sub|saturating_add|wrapping_add|wrapping_sub|abs_diff|unsigned_abs|min|max)$", c)
    if m:
        bits, signed = INT_TYPES[m.group(1)]
        a = _int(exe, st, args[0])
        b = _int(exe, st, args[1]) if len(args) > 1 else None
        op = m.group(2)
        if a is None:
            return None
        if op == "saturating_sub" and not signed:
            return [(st, VInt(z3.If(z3.UGE(a.e, b.e), a.e - b.e, z3.BitVecVal(0, bits)), bits, False))]
        if op == "saturating_add" and not signed:
            return [(st, VInt(z3.If(add_ok(a.e, b.e, False), a.e + b.e, z3.BitVecVal((1 << bits) - 1, bits)), bits, False))]
        if op == "saturating_add" and signed:
            mx = z3.BitVecVal((1 << (bits - 1)) - 1, bits)
            mn = z3.BitVecVal(-(1 << (bits - 1)), bits)
            r = z3.If(add_ok(a.e, b.e, True), a.e + b.e, z3.If(b.e > 0, mx, mn))
            return [(st, VInt(r, bits, True))]
        if op == "saturating_sub" and signed:
            mx = z3.BitVecVal((1 << (bits - 1)) - 1, bits)
            mn = z3.BitVecVal(-(1 << (bits - 1)), bits)
            r = z3.If(sub_ok(a.e, b.e, True), a.e - b.e, z3.If(b.e < 0, mx, mn))
            return [(st, VInt(r, bits, True))]
        if op == "wrapping_add":
            return [(st, VInt(a.e + b.e, bits, signed))]
        if op == "wrapping_sub":
            return [(st, VInt(a.e - b.e, bits, signed))]
        if op == "max":
            gt = (a.e > b.e) if signed else z3.UGT(a.e, b.e)
            return [(st, VInt(z3.If(gt, a.e, b.e), bits, signed))]
        if op == "min":
            lt = (b.e < a.e) if signed else z3.ULT(b.e, a.e)
            return [(st, VInt(z3.If(lt, b.e, a.e), bits, signed))]
        return None

    # ---- operator traits on integers (inherit overflow checks) -------------------------
    m = re.search(r"<&?(\w+) as (?:std::ops::)?(Add|Sub|Mul|Div|Rem)(?:<&?\w+>)?>::(add|sub|mul|div|rem)$", c)
    if m and m.group(1) in INT_TYPES:
        a, b = _int(exe, st, args[0]), _int(exe, st, args[1])
        if a is None or b is None:
            return None
        op = m.group(2)
        s = a.signed
        x, y = a.e, b.e
        if op == "Add":
            ok = add_ok(x, y, s)
            if exe.check_debug_overflow:
                exe.oblige(st, ok, "panic", f.name, bb, "attempt to add with overflow (%s)" % c, tag="debug-overflow")
            return [(st, VInt(x + y, a.bits, s))]
        if op == "Sub":
            ok = sub_ok(x, y, s)
            if exe.check_debug_overflow:
                exe.oblige(st, ok, "panic", f.name, bb, "attempt to subtract with overflow (%s)" % c, tag="debug-overflow")
            return [(st, VInt(x - y, a.bits, s))]
        if op == "Mul":
            ok = mul_ok(x, y, s)
            if exe.check_debug_overflow:
                exe.oblige(st, ok, "panic", f.name, bb, "attempt to multiply with overflow (%s)" % c, tag="debug-overflow")
            return [(st, VInt(x * y, a.bits, s))]
        if op in ("Div", "Rem"):
            exe.oblige(st, y != 0, "panic", f.name, bb, "attempt to divide / take the remainder by zero (%s)" % c, tag="div-zero")
            if s:
                mn = z3.BitVecVal(-(1 << (a.bits - 1)), a.bits)
                exe.oblige(st, z3.Not(z3.And(x == mn, y == -1)), "panic", f.name, bb,
                           "attempt to divide / take the remainder with overflow (%s)" % c, tag="div-overflow")
            if op == "Div":
                return [(st, VInt((x / y) if s else z3.UDiv(x, y), a.bits, s))]
            return [(st, VInt(z3.SRem(x, y) if s else z3.URem(x, y), a.bits, s))]

    # ---- comparisons through references ----------------------------------------------------
    m = re.search(r"<&*(\w+) as (?:PartialOrd|PartialEq)(?:<&*\w+>)?>::(gt|lt|ge|le|eq|ne)$", c)
    if m and m.group(1) in INT_TYPES:
        a, b = _int(exe, st, args[0]), _int(exe, st, args[1])
        if a is None or b is None:
            return None
        s = a.signed
        op = m.group(2)
        e = {"gt": (a.e > b.e) if s else z3.UGT(a.e, b.e), "lt": (a.e < b.e) if s else z3.ULT(a.e, b.e),
             "ge": (a.e >= b.e) if s else z3.UGE(a.e, b.e), "le": (a.e <= b.e) if s else z3.ULE(a.e, b.e),
             "eq": a.e == b.e, "ne": a.e != b.e}[op]
        return [(st, VBool(e))]

    # ---- Option ------------------------------------------------------------------------------
    if re.search(r"Option::<.*>::unwrap$", c) or re.search(r"Option::<.*>::expect$", c):
        v = args[0]
        if isinstance(v, VAgg):
            if v.variant == "Some":
                return [(st, v.fields[0])]
            exe.oblige(st, z3.BoolVal(False), "panic", f.name, bb, "unwrap on None", tag="unwrap")
            return []
        return None
    if re.search(r"Option::<.*>::(is_some|is_none)$", c):
        v = _deref_all(exe, st, args[0])
        if isinstance(v, VAgg):
            r = (v.variant == "Some") == c.endswith("is_some")
            return [(st, VBool(z3.BoolVal(r)))]
        return None

    # ---- Vec / slices / iterators over concrete-length vectors -----------------------------------
    if re.search(r"Vec::<.*>::new$", c):
        return [(st, VVec([]))]
    if re.search(r"Vec::<.*>::push$", c):
        ref = args[0]
        vec = _deref_all(exe, st, ref)
        if isinstance(vec, VVec) and isinstance(ref, VRef):
            exe.write_ref(st, ref, [], VVec(list(vec.elems) + [args[1]], vec.ety), f)
            return [(st, VUnit())]
        return None
    if re.search(r"Vec::<.*>::len$", c) or re.search(r"core::slice::<impl \[.*\]>::len$", c):
        v = _deref_all(exe, st, args[0])
        if isinstance(v, (VVec, VSlice)):
            return [(st, exe.length(v))]
        return None
    if re.search(r"<Vec<.*> as (?:Index|IndexMut)<usize>>::index(_mut)?$", c):
        ref = args[0]
        vec = _deref_all(exe, st, ref)
        idx = _int(exe, st, args[1])
        if isinstance(vec, VVec) and idx is not None:
            exe.oblige(st, z3.ULT(idx.e, z3.BitVecVal(len(vec.elems), 64)), "panic", f.name, bb,
                       "index out of bounds (%s)" % c, tag="bounds")
            if not exe.feasible(st):
                return []
            return [(st, VRef("elem", ref if isinstance(ref, VRef) else vec, idx))]
        return None
    if re.search(r"<Vec<.*> as Index<(?:std::ops::)?Range<usize>>>::index$", c):
        vec = _deref_all(exe, st, args[0])
        rng = args[1]
        if isinstance(vec, VVec) and isinstance(rng, VAgg) and len(rng.fields) == 2:
            s_, e_ = rng.fields
            n = z3.BitVecVal(len(vec.elems), 64)
            exe.oblige(st, z3.ULE(s_.e, e_.e), "panic", f.name, bb, "slice index starts after its end", tag="bounds")
            exe.oblige(st, z3.ULE(e_.e, n), "panic", f.name, bb, "range end index out of range for slice", tag="bounds")
            if not exe.feasible(st):
                return []
            return [(st, VRef("val", VSlice(vec, s_, e_)))]
        return None
    if re.search(r"core::slice::<impl \[.*\]>::iter$", c) or re.search(r"<&Vec<.*> as IntoIterator>::into_iter$", c):
        v = _deref_all(exe, st, args[0])
        if isinstance(v, VSlice):
            return [(st, VIter("slice", v, 0))]
        if isinstance(v, VVec):
            return [(st, VIter("slice", VSlice(v, _u64(0), _u64(len(v.elems))), 0))]
        return None
    if re.search(r"<std::slice::Iter<'_, (\w+)> as Iterator>::sum::<\w+>$", c):
        it = args[0]
        if isinstance(it, VIter) and it.kind == "slice" and isinstance(it.src.vec, VVec):
            sl = it.src
            total = z3.BitVecVal(0, 64)
            for k, el in enumerate(sl.vec.elems):
                if not isinstance(el, VInt):
                    return None
                inside = z3.And(z3.ULE(sl.start.e, z3.BitVecVal(k, 64)), z3.ULT(z3.BitVecVal(k, 64), sl.end.e))
                term = z3.If(inside, el.e, z3.BitVecVal(0, 64))
                if exe.check_debug_overflow:
                    exe.oblige(st, add_ok(total, term, False), "panic", f.name, bb,
                               "attempt to add with overflow (iterator sum)", tag="debug-overflow")
                total = total + term
            return [(st, VInt(total, 64, False))]
        return None
    if re.search(r"<Vec<.*> as IntoIterator>::into_iter$", c):
        v = args[0]
        if isinstance(v, VVec):
            return [(st, VIter("vec", v, 0))]
        return None
    if re.search(r"<std::vec::IntoIter<.*> as Iterator>::next$", c):
        ref = args[0]
        it = _deref_all(exe, st, ref)
        if isinstance(it, VIter) and it.kind == "vec" and isinstance(ref, VRef):
            if it.pos < len(it.src.elems):
                el = it.src.elems[it.pos]
                exe.write_ref(st, ref, [], VIter("vec", it.src, it.pos + 1), f)
                return [(st, VAgg("Option::Some", "Some", [el]))]
            return [(st, VAgg("Option::None", "None", []))]
        return None
    if re.search(r"<std::ops::Range<usize> as Iterator>::next$", c):
        ref = args[0]
        rng = _deref_all(exe, st, ref)
        if isinstance(rng, VAgg) and len(rng.fields) == 2 and isinstance(ref, VRef):
            s_, e_ = rng.fields
            cond = z3.ULT(s_.e, e_.e)
            outs = []
            if exe.feasible(st, cond):
                s2 = st.clone()
                s2.pc.append(cond)
                exe.write_ref(s2, ref, [], VAgg(rng.path, rng.variant, [VInt(s_.e + 1, 64, False), e_], rng.names), f)
                outs.append((s2, VAgg("Option::Some", "Some", [s_])))
            if exe.feasible(st, z3.Not(cond)):
                s3 = st.clone()
                s3.pc.append(z3.Not(cond))
                outs.append((s3, VAgg("Option::None", "None", [])))
            return outs
        return None
    if re.search(r"<std::ops::Range<usize> as IntoIterator>::into_iter$", c):
        return [(st, args[0])]

    # ---- clone / deref / conversions ---------------------------------------------------------------
    if re.search(r" as Clone>::clone$", c):
        v = args[0]
        if isinstance(v, VRef):
            try:
                return [(st, exe.deref(st, v))]
            except PathEnd:
                return None
        return None
    if re.search(r"std::mem::(drop|forget)::<", c):
        return [(st, VUnit())]
    return None
