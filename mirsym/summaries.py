"""Summaries of std library functions called from html2text's MIR.

Each summary states the documented contract of the std function, including
its panic conditions (reported as findings when reachable).  Operators that
inherit the caller's overflow checks (`<i32 as Sub>::sub` ...) panic on
overflow in the debug/test profile; those findings carry the tag
'debug-overflow'.
"""
import re
import z3

from sym import (VInt, VBool, VUnit, VAgg, VVec, VSlice, VIter, VRef, VOpaque, PathEnd, ite_value, INT_TYPES,
                 add_ok, sub_ok, mul_ok)


def _deref_all(exe, st, v):
    n = 0
    while isinstance(v, VRef) and n < 4:
        v = exe.deref(st, v)
        n += 1
    return v


def _int(exe, st, v):
    v = _deref_all(exe, st, v)
    if isinstance(v, VInt):
        return v
    return None


def _u64(n):
    return VInt(z3.BitVecVal(n, 64), 64, False)


def summarize(exe, st, f, bb, callee, args, dest_ty):
    c = re.sub(r"\s+", " ", callee.strip())

    m = re.search(r"^<(\w+) as Default>::default$", c)
    if m and (m.group(1) in INT_TYPES or m.group(1) == "bool"):
        if m.group(1) == "bool":
            return [(st, VBool(z3.BoolVal(False)))]
        bits, signed = INT_TYPES[m.group(1)]
        return [(st, VInt(z3.BitVecVal(0, bits), bits, signed))]

    # ---- min / max -----------------------------------------------------------
    m = re.search(r"(?:std|core)::cmp::(max|min)::<(\w+)>$", c) or re.search(r"<(\w+) as Ord>::(max|min)$", c)
    if m:
        which = m.group(1) if m.group(1) in ("max", "min") else m.group(2)
        a, b = _int(exe, st, args[0]), _int(exe, st, args[1])
        if a is None or b is None:
            return None
        gt = (a.e > b.e) if a.signed else z3.UGT(a.e, b.e)
        # std: max returns the second argument when equal; min returns the first
        if which == "max":
            return [(st, VInt(z3.If(gt, a.e, b.e), a.bits, a.signed))]
        lt = (b.e < a.e) if a.signed else z3.ULT(b.e, a.e)
        return [(st, VInt(z3.If(lt, b.e, a.e), a.bits, a.signed))]

    # ---- saturating / wrapping / checked integer methods --------------------------
    m = re.search(r"core::num::<impl (\w+)>::(saturating_sub|saturating_add|wrapping_add|wrapping_sub|abs_diff|unsigned_abs|min|max)$", c)
    if m:
        bits, signed = INT_TYPES[m.group(1)]
        a = _int(exe, st, args[0])
        b = _int(exe, st, args[1]) if len(args) > 1 else None
        op = m.group(2)
        if a is None:
            return None
        if op == "saturating_sub" and not signed:
            return [(st, VInt(z3.If(z3.UGE(a.e, b.e), a.e - b.e, z3.BitVecVal(0, bits)), bits, False))]
        if op == "saturating_add" and not signed:
            return [(st, VInt(z3.If(add_ok(a.e, b.e, False), a.e + b.e, z3.BitVecVal((1 << bits) - 1, bits)), bits, False))]
        if op == "saturating_add" and signed:
            mx = z3.BitVecVal((1 << (bits - 1)) - 1, bits)
            mn = z3.BitVecVal(-(1 << (bits - 1)), bits)
            r = z3.If(add_ok(a.e, b.e, True), a.e + b.e, z3.If(b.e > 0, mx, mn))
            return [(st, VInt(r, bits, True))]
        if op == "saturating_sub" and signed:
            mx = z3.BitVecVal((1 << (bits - 1)) - 1, bits)
            mn = z3.BitVecVal(-(1 << (bits - 1)), bits)
            r = z3.If(sub_ok(a.e, b.e, True), a.e - b.e, z3.If(b.e < 0, mx, mn))
            return [(st, VInt(r, bits, True))]
        if op == "wrapping_add":
            return [(st, VInt(a.e + b.e, bits, signed))]
        if op == "wrapping_sub":
            return [(st, VInt(a.e - b.e, bits, signed))]
        if op == "max":
            gt = (a.e > b.e) if signed else z3.UGT(a.e, b.e)
            return [(st, VInt(z3.If(gt, a.e, b.e), bits, signed))]
        if op == "min":
            lt = (b.e < a.e) if signed else z3.ULT(b.e, a.e)
            return [(st, VInt(z3.If(lt, b.e, a.e), bits, signed))]
        return None

    # ---- operator traits on integers (inherit overflow checks) -------------------------
    m = re.search(r"<&?(\w+) as (?:std::ops::)?(Add|Sub|Mul|Div|Rem)(?:<&?\w+>)?>::(add|sub|mul|div|rem)$", c)
    if m and m.group(1) in INT_TYPES:
        a, b = _int(exe, st, args[0]), _int(exe, st, args[1])
        if a is None or b is None:
            return None
        op = m.group(2)
        s = a.signed
        x, y = a.e, b.e
        if op == "Add":
            ok = add_ok(x, y, s)
            if exe.check_debug_overflow:
                exe.oblige(st, ok, "panic", f.name, bb, "attempt to add with overflow (%s)" % c, tag="debug-overflow")
            return [(st, VInt(x + y, a.bits, s))]
        if op == "Sub":
            ok = sub_ok(x, y, s)
            if exe.check_debug_overflow:
                exe.oblige(st, ok, "panic", f.name, bb, "attempt to subtract with overflow (%s)" % c, tag="debug-overflow")
            return [(st, VInt(x - y, a.bits, s))]
        if op == "Mul":
            ok = mul_ok(x, y, s)
            if exe.check_debug_overflow:
                exe.oblige(st, ok, "panic", f.name, bb, "attempt to multiply with overflow (%s)" % c, tag="debug-overflow")
            return [(st, VInt(x * y, a.bits, s))]
        if op in ("Div", "Rem"):
            exe.oblige(st, y != 0, "panic", f.name, bb, "attempt to divide / take the remainder by zero (%s)" % c, tag="div-zero")
            if s:
                mn = z3.BitVecVal(-(1 << (a.bits - 1)), a.bits)
                exe.oblige(st, z3.Not(z3.And(x == mn, y == -1)), "panic", f.name, bb,
                           "attempt to divide / take the remainder with overflow (%s)" % c, tag="div-overflow")
            if op == "Div":
                return [(st, VInt((x / y) if s else z3.UDiv(x, y), a.bits, s))]
            return [(st, VInt(z3.SRem(x, y) if s else z3.URem(x, y), a.bits, s))]

    # ---- comparisons through references ----------------------------------------------------
    m = re.search(r"<&*(\w+) as (?:PartialOrd|PartialEq)(?:<&*\w+>)?>::(gt|lt|ge|le|eq|ne)$", c)
    if m and m.group(1) in INT_TYPES:
        a, b = _int(exe, st, args[0]), _int(exe, st, args[1])
        if a is None or b is None:
            return None
        s = a.signed
        op = m.group(2)
        e = {"gt": (a.e > b.e) if s else z3.UGT(a.e, b.e), "lt": (a.e < b.e) if s else z3.ULT(a.e, b.e),
             "ge": (a.e >= b.e) if s else z3.UGE(a.e, b.e), "le": (a.e <= b.e) if s else z3.ULE(a.e, b.e),
             "eq": a.e == b.e, "ne": a.e != b.e}[op]
        return [(st, VBool(e))]

    # ---- Option ------------------------------------------------------------------------------
    if re.search(r"Option::<.*>::unwrap$", c) or re.search(r"Option::<.*>::expect$", c):
        v = args[0]
        if isinstance(v, VAgg):
            if v.variant == "Some":
                return [(st, v.fields[0])]
            exe.oblige(st, z3.BoolVal(False), "panic", f.name, bb, "unwrap on None", tag="unwrap")
            return []
        return None
    if re.search(r"Option::<.*>::unwrap_or$", c):
        v = args[0]
        if isinstance(v, VAgg) and v.variant == "Some":
            return [(st, v.fields[0])]
        if isinstance(v, VAgg) and v.variant == "None":
            return [(st, args[1])]
        return None
    if re.search(r"Option::<.*>::unwrap_or_else::<.*>$", c):
        v = args[0]
        if isinstance(v, VAgg) and v.variant == "Some":
            return [(st, v.fields[0])]
        if isinstance(v, VAgg) and v.variant == "None":
            return exe.call_closure(st, args[1], [])
        return None
    if re.search(r"Option::<.*>::(is_some|is_none)$", c):
        v = _deref_all(exe, st, args[0])
        if isinstance(v, VAgg):
            r = (v.variant == "Some") == c.endswith("is_some")
            return [(st, VBool(z3.BoolVal(r)))]
        return None

    # ---- Vec / slices / iterators over concrete-length vectors -----------------------------------
    if re.search(r"Vec::<.*>::new$", c):
        return [(st, VVec([]))]
    if re.search(r"Vec::<.*>::push$", c):
        ref = args[0]
        vec = _deref_all(exe, st, ref)
        if isinstance(vec, VVec) and isinstance(ref, VRef):
            exe.write_ref(st, ref, [], VVec(list(vec.elems) + [args[1]], vec.ety), f)
            return [(st, VUnit())]
        return None
    if re.search(r"Vec::<.*>::pop$", c):
        ref = args[0]
        vec = _deref_all(exe, st, ref)
        if isinstance(vec, VVec) and isinstance(ref, VRef):
            if not vec.elems:
                return [(st, VAgg("Option::None", "None", []))]
            exe.write_ref(st, ref, [], VVec(list(vec.elems)[:-1], vec.ety), f)
            return [(st, VAgg("Option::Some", "Some", [vec.elems[-1]]))]
        return None
    if re.search(r"Vec::<.*>::remove$", c):
        ref = args[0]
        vec = _deref_all(exe, st, ref)
        idx = _int(exe, st, args[1])
        k = _concrete(idx.e) if idx is not None else None
        if isinstance(vec, VVec) and isinstance(ref, VRef) and k is not None:
            if k >= len(vec.elems):
                exe.oblige(st, z3.BoolVal(False), "panic", f.name, bb, "removal index out of bounds", tag="bounds")
                return []
            el = list(vec.elems)
            out = el.pop(k)
            exe.write_ref(st, ref, [], VVec(el, vec.ety), f)
            return [(st, out)]
        return None
    if re.search(r"Vec::<.*>::insert$", c):
        ref = args[0]
        vec = _deref_all(exe, st, ref)
        idx = _int(exe, st, args[1])
        k = _concrete(idx.e) if idx is not None else None
        if isinstance(vec, VVec) and isinstance(ref, VRef) and k is not None:
            if k > len(vec.elems):
                exe.oblige(st, z3.BoolVal(False), "panic", f.name, bb, "insertion index out of bounds", tag="bounds")
                return []
            el = list(vec.elems)
            el.insert(k, args[2])
            exe.write_ref(st, ref, [], VVec(el, vec.ety), f)
            return [(st, VUnit())]
        return None
    if re.search(r"core::slice::<impl \[.*\]>::last_mut$", c) or re.search(r"core::slice::<impl \[.*\]>::last$", c):
        ref = args[0]
        v = _deref_all(exe, st, ref)
        if isinstance(v, VSlice) and isinstance(v.vec, VVec):
            v = v.vec
        if isinstance(v, VVec):
            if not v.elems:
                return [(st, VAgg("Option::None", "None", []))]
            return [(st, VAgg("Option::Some", "Some", [VRef("elem", ref, _u64(len(v.elems) - 1))]))]
        return None
    if re.search(r"core::slice::<impl \[.*\]>::first_mut$", c) or re.search(r"core::slice::<impl \[.*\]>::first$", c):
        ref = args[0]
        v = _deref_all(exe, st, ref)
        if isinstance(v, VSlice) and isinstance(v.vec, VVec):
            v = v.vec
        if isinstance(v, VVec):
            if not v.elems:
                return [(st, VAgg("Option::None", "None", []))]
            return [(st, VAgg("Option::Some", "Some", [VRef("elem", ref, _u64(0))]))]
        return None
    if re.search(r"core::slice::<impl \[.*\]>::get(_mut)?::<usize>$", c):
        ref = args[0]
        v = _deref_all(exe, st, ref)
        if isinstance(v, VSlice) and isinstance(v.vec, VVec) and _concrete(v.start.e) == 0 and _concrete(v.end.e) == len(v.vec.elems):
            v = v.vec
        idx = _int(exe, st, args[1])
        if isinstance(v, VVec) and idx is not None and isinstance(ref, VRef):
            outs = []
            n = len(v.elems)
            for k in range(n):
                cond = idx.e == z3.BitVecVal(k, 64)
                if exe.feasible(st, cond):
                    s2 = st.clone()
                    s2.pc.append(cond)
                    outs.append((s2, VAgg("Option::Some", "Some", [VRef("elem", ref, _u64(k))])))
            cond = z3.UGE(idx.e, z3.BitVecVal(n, 64))
            if exe.feasible(st, cond):
                s2 = st.clone()
                s2.pc.append(cond)
                outs.append((s2, VAgg("Option::None", "None", [])))
            return outs
        return None
    if re.search(r"^<Vec<.*> as DerefMut>::deref_mut$", c):
        return [(st, args[0])]
    if re.search(r"Vec::<.*>::len$", c) or re.search(r"core::slice::<impl \[.*\]>::len$", c):
        v = _deref_all(exe, st, args[0])
        if isinstance(v, (VVec, VSlice)):
            return [(st, exe.length(v))]
        return None
    if re.search(r"^<Vec<.*> as (?:Index|IndexMut)<usize>>::index(_mut)?$", c):
        ref = args[0]
        vec = _deref_all(exe, st, ref)
        idx = _int(exe, st, args[1])
        if isinstance(vec, VVec) and idx is not None:
            exe.oblige(st, z3.ULT(idx.e, z3.BitVecVal(len(vec.elems), 64)), "panic", f.name, bb,
                       "index out of bounds (%s)" % c, tag="bounds")
            if not exe.feasible(st):
                return []
            return [(st, VRef("elem", ref if isinstance(ref, VRef) else vec, idx))]
        return None
    if re.search(r"^<Vec<.*> as Index<(?:std::ops::)?Range<usize>>>::index$", c):
        vec = _deref_all(exe, st, args[0])
        rng = args[1]
        if isinstance(vec, VVec) and isinstance(rng, VAgg) and len(rng.fields) == 2:
            s_, e_ = rng.fields
            n = z3.BitVecVal(len(vec.elems), 64)
            exe.oblige(st, z3.ULE(s_.e, e_.e), "panic", f.name, bb, "slice index starts after its end", tag="bounds")
            exe.oblige(st, z3.ULE(e_.e, n), "panic", f.name, bb, "range end index out of range for slice", tag="bounds")
            if not exe.feasible(st):
                return []
            return [(st, VRef("val", VSlice(vec, s_, e_)))]
        return None
    if re.search(r"^<Vec<.*> as Index<(?:std::ops::)?RangeTo<usize>>>::index$", c):
        vec = _deref_all(exe, st, args[0])
        rng = args[1]
        if isinstance(vec, VVec) and isinstance(rng, VAgg) and len(rng.fields) == 1:
            e_ = rng.fields[0]
            n = z3.BitVecVal(len(vec.elems), 64)
            exe.oblige(st, z3.ULE(e_.e, n), "panic", f.name, bb, "range end index out of range for slice", tag="bounds")
            if not exe.feasible(st):
                return []
            return [(st, VRef("val", VSlice(vec, _u64(0), e_)))]
        return None
    if re.search(r"core::slice::<impl \[.*\]>::iter$", c) or re.search(r"<&Vec<.*> as IntoIterator>::into_iter$", c) \
            or re.search(r"^<&\[.*\] as IntoIterator>::into_iter$", c):
        v = _deref_all(exe, st, args[0])
        if isinstance(v, VSlice):
            return [(st, VIter("slice", v, 0))]
        if isinstance(v, VVec):
            return [(st, VIter("slice", VSlice(v, _u64(0), _u64(len(v.elems))), 0))]
        return None
    if re.search(r"<std::slice::Iter<'_, (\w+)> as Iterator>::sum::<\w+>$", c):
        it = args[0]
        if isinstance(it, VIter) and it.kind == "slice" and isinstance(it.src.vec, VVec):
            sl = it.src
            total = z3.BitVecVal(0, 64)
            for k, el in enumerate(sl.vec.elems):
                if not isinstance(el, VInt):
                    return None
                inside = z3.And(z3.ULE(sl.start.e, z3.BitVecVal(k, 64)), z3.ULT(z3.BitVecVal(k, 64), sl.end.e))
                term = z3.If(inside, el.e, z3.BitVecVal(0, 64))
                if exe.check_debug_overflow:
                    exe.oblige(st, add_ok(total, term, False), "panic", f.name, bb,
                               "attempt to add with overflow (iterator sum)", tag="debug-overflow")
                total = total + term
            return [(st, VInt(total, 64, False))]
        return None
    if re.search(r"^<Vec<.*> as IntoIterator>::into_iter$", c):
        v = args[0]
        if isinstance(v, VVec):
            return [(st, VIter("vec", v, 0))]
        return None
    if re.search(r"^<std::vec::IntoIter<.*> as Iterator>::next$", c):
        ref = args[0]
        it = _deref_all(exe, st, ref)
        if isinstance(it, VIter) and it.kind == "vec" and isinstance(ref, VRef):
            if it.pos < len(it.src.elems):
                el = it.src.elems[it.pos]
                exe.write_ref(st, ref, [], VIter("vec", it.src, it.pos + 1), f)
                return [(st, VAgg("Option::Some", "Some", [el]))]
            return [(st, VAgg("Option::None", "None", []))]
        return None
    if re.search(r"^<std::ops::Range<usize> as Iterator>::next$", c):
        ref = args[0]
        rng = _deref_all(exe, st, ref)
        if isinstance(rng, VAgg) and len(rng.fields) == 2 and isinstance(ref, VRef):
            s_, e_ = rng.fields
            cond = z3.ULT(s_.e, e_.e)
            outs = []
            if exe.feasible(st, cond):
                s2 = st.clone()
                s2.pc.append(cond)
                exe.write_ref(s2, ref, [], VAgg(rng.path, rng.variant, [VInt(s_.e + 1, 64, False), e_], rng.names), f)
                outs.append((s2, VAgg("Option::Some", "Some", [s_])))
            if exe.feasible(st, z3.Not(cond)):
                s3 = st.clone()
                s3.pc.append(z3.Not(cond))
                outs.append((s3, VAgg("Option::None", "None", [])))
            return outs
        return None
    if re.search(r"^<std::ops::Range<usize> as IntoIterator>::into_iter$", c):
        return [(st, args[0])]

    r = iterator_summaries(exe, st, f, bb, c, args, dest_ty)
    if r is not None:
        return r
    r = misc_summaries(exe, st, f, bb, c, args, dest_ty)
    if r is not None:
        return r

    # ---- clone / deref / conversions ---------------------------------------------------------------
    if re.search(r" as Clone>::clone$", c):
        v = args[0]
        if isinstance(v, VRef):
            try:
                return [(st, exe.deref(st, v))]
            except PathEnd:
                return None
        return None
    if re.search(r" as Extend<.*>>::extend::<", c):
        ref = args[0]
        dst = _deref_all(exe, st, ref)
        src = args[1]
        if isinstance(dst, VVec) and isinstance(src, VVec) and isinstance(ref, VRef):
            exe.write_ref(st, ref, [], VVec(list(dst.elems) + list(src.elems), dst.ety), f)
            return [(st, VUnit())]
        return None
    if re.search(r"std::mem::take::<", c):
        ref = args[0]
        cur = _deref_all(exe, st, ref)
        if isinstance(cur, VVec) and isinstance(ref, VRef):
            exe.write_ref(st, ref, [], VVec([], cur.ety), f)
            return [(st, cur)]
        return None
    if re.search(r"Vec::<.*>::is_empty$", c):
        v = _deref_all(exe, st, args[0])
        if isinstance(v, VVec):
            return [(st, VBool(z3.BoolVal(len(v.elems) == 0)))]
        return None
    if re.search(r"std::mem::(drop|forget)::<", c):
        return [(st, VUnit())]
    return None


# ----------------------------------------------------------------------------
# iterator adaptors over vectors of concrete length
# ----------------------------------------------------------------------------

def _concrete(e):
    v = z3.simplify(e)
    return v.as_long() if z3.is_bv_value(v) else None


def materialize(exe, st, it):
    """All elements the iterator will still yield: [(state, [values])] (closures may fork paths)."""
    if isinstance(it, VRef):
        it = exe.deref(st, it)
    if isinstance(it, VAgg) and len(it.fields) == 2 and all(isinstance(x, VInt) for x in it.fields):
        # a Range with concrete bounds
        a, b = _concrete(it.fields[0].e), _concrete(it.fields[1].e)
        if a is None or b is None or b - a > 64:
            raise PathEnd("iteration over a range with symbolic or large bounds")
        return [(st, [VInt(z3.BitVecVal(k, it.fields[0].bits), it.fields[0].bits, it.fields[0].signed) for k in range(a, max(a, b))])]
    if not isinstance(it, VIter):
        raise PathEnd("not an iterator: %r" % (it,))
    if it.kind == "slice":
        sl = it.src
        a, b = _concrete(sl.start.e), _concrete(sl.end.e)
        if a is None or b is None or not isinstance(sl.vec, VVec):
            raise PathEnd("iterator over a slice with symbolic bounds")
        return [(st, [VRef("val", el) for el in sl.vec.elems[a + it.pos:b]])]
    if it.kind == "vec":
        return [(st, list(it.src.elems[it.pos:]))]
    if it.kind == "mutslice":
        vec = _deref_all(exe, st, it.src)
        if isinstance(vec, VSlice):
            vec = vec.vec
        if not isinstance(vec, VVec):
            raise PathEnd("iter_mut over something that is not a vector")
        return [(st, [VRef("elem", it.src, _u64(i)) for i in range(it.pos, len(vec.elems))])]
    if it.kind == "cloned":
        outs = []
        for (s2, els) in materialize(exe, st, it.src):
            outs.append((s2, [_deref_all(exe, s2, e) for e in els]))
        return outs
    if it.kind == "enumerate":
        outs = []
        for (s2, els) in materialize(exe, st, it.src):
            outs.append((s2, [VAgg("tuple", None, [_u64(i), e]) for i, e in enumerate(els)]))
        return outs
    if it.kind == "map":
        outs = []
        for (s2, els) in materialize(exe, st, it.src):
            partial = [(s2, [])]
            for e in els:
                nxt = []
                for (s3, acc) in partial:
                    for (s4, v) in exe.call_closure(s3, it.extra, [e]):
                        nxt.append((s4, acc + [v]))
                partial = nxt
            outs.extend(partial)
        return outs
    if it.kind == "filter":
        outs = []
        for (s2, els) in materialize(exe, st, it.src):
            partial = [(s2, [])]
            for e in els:
                nxt = []
                for (s3, acc) in partial:
                    for (s4, keep) in exe.call_closure(s3, it.extra, [VRef("val", e)]):
                        if not isinstance(keep, VBool):
                            raise PathEnd("filter predicate is not boolean")
                        if exe.feasible(s4, keep.e):
                            s5 = s4.clone()
                            s5.pc.append(keep.e)
                            nxt.append((s5, acc + [e]))
                        if exe.feasible(s4, z3.Not(keep.e)):
                            s6 = s4.clone()
                            s6.pc.append(z3.Not(keep.e))
                            nxt.append((s6, acc))
                partial = nxt
            outs.extend(partial)
        return outs
    raise PathEnd("materialize %s" % it.kind)


def _key_ge(exe, st, a, b):
    """Lexicographic a >= b for tuples of integers (references are followed)."""
    a, b = _deref_all(exe, st, a), _deref_all(exe, st, b)
    if isinstance(a, VInt) and isinstance(b, VInt):
        return (a.e >= b.e) if a.signed else z3.UGE(a.e, b.e), a.e == b.e
    if isinstance(a, VAgg) and isinstance(b, VAgg) and len(a.fields) == len(b.fields):
        ge = z3.BoolVal(True)
        eq = z3.BoolVal(True)
        for x, y in reversed(list(zip(a.fields, b.fields))):
            g, e = _key_ge(exe, st, x, y)
            gt = z3.And(g, z3.Not(e))
            ge = z3.Or(gt, z3.And(e, ge))
            eq = z3.And(e, eq)
        return ge, eq
    raise PathEnd("cannot compare keys %r %r" % (a, b))


def iterator_summaries(exe, st, f, bb, c, args, dest_ty):
    # ---- generic code (`impl IntoIterator`): dispatch on the model value ---------------------
    if re.search(r" as IntoIterator>::into_iter$", c) and args:
        if isinstance(args[0], VIter):
            return [(st, args[0])]
        if isinstance(args[0], VVec):
            return [(st, VIter("vec", args[0], 0))]
    if re.search(r" as Iterator>::next$", c) and args and isinstance(args[0], VRef):
        it0 = _deref_all(exe, st, args[0])
        if isinstance(it0, VIter) and it0.kind not in ("slice", "vec"):
            outs = []
            for (s2, els) in materialize(exe, st, it0):
                if els:
                    exe.write_ref(s2, args[0], [], VIter("vec", VVec(els[1:]), 0), f)
                    outs.append((s2, VAgg("Option::Some", "Some", [els[0]])))
                else:
                    exe.write_ref(s2, args[0], [], VIter("vec", VVec([]), 0), f)
                    outs.append((s2, VAgg("Option::None", "None", [])))
            return outs
        if isinstance(it0, VIter) and it0.kind == "vec":
            if it0.pos < len(it0.src.elems):
                el = it0.src.elems[it0.pos]
                exe.write_ref(st, args[0], [], VIter("vec", it0.src, it0.pos + 1), f)
                return [(st, VAgg("Option::Some", "Some", [el]))]
            return [(st, VAgg("Option::None", "None", []))]
    # ---- constructors / adaptors ----------------------------------------------------
    if re.search(r"^<std::vec::IntoIter<.*> as IntoIterator>::into_iter$", c):
        return [(st, args[0])]
    if re.search(r"<std::slice::Iter<'_, .*> as IntoIterator>::into_iter$", c) or re.search(r"^<(?:std::iter::)?(?:Enumerate|Map|Filter|Cloned|Copied|Zip|Rev|Chain|Take|Skip)<.*> as IntoIterator>::into_iter$", c):
        return [(st, args[0])]
    m = re.search(r" as Iterator>::(map|filter|enumerate|cloned|copied)(?:::<.*>)?$", c)
    if m and isinstance(args[0], VIter):
        kind = {"copied": "cloned"}.get(m.group(1), m.group(1))
        return [(st, VIter(kind, args[0], 0, args[1] if len(args) > 1 else None))]
    if re.search(r"^<Vec<.*> as Deref>::deref$", c) or re.search(r"Vec::<.*>::as_slice$", c):
        v = _deref_all(exe, st, args[0])
        if isinstance(v, VVec):
            return [(st, VRef("val", VSlice(v, _u64(0), _u64(len(v.elems)))))]
        return None
    if re.search(r"std::vec::from_elem::<.*>$", c):
        n = _int(exe, st, args[1])
        k = _concrete(n.e) if n is not None else None
        if k is None:
            raise PathEnd("vec![x; n] with symbolic n")
        return [(st, VVec([args[0]] * k))]
    # ---- next on adaptor iterators: materialise once, then step ----------------------------
    if re.search(r"^<(?:std::iter::)?(?:Enumerate|Map|Filter|Cloned|Copied)<.*> as Iterator>::next$", c):
        ref = args[0]
        it = _deref_all(exe, st, ref)
        if isinstance(it, VIter) and isinstance(ref, VRef):
            outs = []
            for (s2, els) in materialize(exe, st, it):
                if els:
                    exe.write_ref(s2, ref, [], VIter("vec", VVec(els[1:]), 0), f)
                    outs.append((s2, VAgg("Option::Some", "Some", [els[0]])))
                else:
                    exe.write_ref(s2, ref, [], VIter("vec", VVec([]), 0), f)
                    outs.append((s2, VAgg("Option::None", "None", [])))
            return outs
        return None
    # ---- mutable slice iterators: elements are references into the vector ------------------
    if re.search(r"core::slice::<impl \[.*\]>::iter_mut$", c) or re.search(r"^<&mut Vec<.*> as IntoIterator>::into_iter$", c):
        if isinstance(args[0], VRef) and isinstance(_deref_all(exe, st, args[0]), (VVec, VSlice)):
            return [(st, VIter("mutslice", args[0], 0))]
        return None
    if re.search(r"^<std::slice::IterMut<'_, .*> as Iterator>::next$", c):
        ref = args[0]
        it = _deref_all(exe, st, ref)
        if isinstance(it, VIter) and it.kind == "mutslice" and isinstance(ref, VRef):
            vec = _deref_all(exe, st, it.src)
            if isinstance(vec, VSlice):
                vec = vec.vec
            if it.pos < len(vec.elems):
                exe.write_ref(st, ref, [], VIter("mutslice", it.src, it.pos + 1), f)
                return [(st, VAgg("Option::Some", "Some", [VRef("elem", it.src, _u64(it.pos))]))]
            return [(st, VAgg("Option::None", "None", []))]
        return None
    # ---- next on slice iterators ----------------------------------------------------
    if re.search(r"^<std::slice::Iter<'_, .*> as Iterator>::next$", c):
        ref = args[0]
        it = _deref_all(exe, st, ref)
        if isinstance(it, VIter) and it.kind == "slice" and isinstance(ref, VRef):
            sl = it.src
            a, b = _concrete(sl.start.e), _concrete(sl.end.e)
            if a is None or b is None:
                raise PathEnd("next on slice iterator with symbolic bounds")
            if a + it.pos < b:
                el = sl.vec.elems[a + it.pos]
                exe.write_ref(st, ref, [], VIter("slice", sl, it.pos + 1), f)
                return [(st, VAgg("Option::Some", "Some", [VRef("val", el)]))]
            return [(st, VAgg("Option::None", "None", []))]
        return None
    # ---- terminal operations ---------------------------------------------------------
    m = re.search(r" as Iterator>::(sum|collect|count|max_by_key|max|any|all|fold)(?:::<.*>)?$", c)
    _it0 = _deref_all(exe, st, args[0]) if m else None
    if m and (isinstance(_it0, VIter) or (m.group(1) in ("any", "all") and isinstance(_it0, VAgg) and len(_it0.fields) == 2
                                          and all(isinstance(x, VInt) for x in _it0.fields))):
        op = m.group(1)
        it = _deref_all(exe, st, args[0])
        if op == "count" and it.kind == "filter":
            outs = []
            for (s2, els) in materialize(exe, st, it.src):
                partial = [(s2, z3.BitVecVal(0, 64))]
                for e in els:
                    nxt = []
                    for (s3, acc) in partial:
                        for (s4, keep) in exe.call_closure(s3, it.extra, [VRef("val", e)]):
                            if not isinstance(keep, VBool):
                                raise PathEnd("filter predicate is not boolean")
                            nxt.append((s4, acc + z3.If(keep.e, z3.BitVecVal(1, 64), z3.BitVecVal(0, 64))))
                    partial = nxt
                outs.extend((s5, VInt(acc, 64, False)) for (s5, acc) in partial)
            return outs
        outs = []
        for (s2, els) in materialize(exe, st, it):
            if op == "sum":
                total = None
                for e in els:
                    v = _int(exe, s2, e)
                    if v is None:
                        raise PathEnd("sum over non-integers")
                    if total is None:
                        total = v
                    else:
                        if exe.check_debug_overflow:
                            exe.oblige(s2, add_ok(total.e, v.e, v.signed), "panic", f.name, bb,
                                       "attempt to add with overflow (iterator sum)", tag="debug-overflow")
                        total = VInt(total.e + v.e, v.bits, v.signed)
                if total is None:
                    bits, signed = INT_TYPES.get(dest_ty or "usize", (64, False))
                    total = VInt(z3.BitVecVal(0, bits), bits, signed)
                outs.append((s2, total))
            elif op == "collect":
                if re.search(r"::collect::<std::result::Result<", c):
                    # collecting Results: the first Err, or Ok of all payloads
                    shaped = all(isinstance(e, VAgg) and e.variant in ("Ok", "Err") for e in els)
                    if not shaped:
                        raise PathEnd("collect into Result over unshaped elements")
                    err = next((e for e in els if e.variant == "Err"), None)
                    if err is not None:
                        outs.append((s2, VAgg("Result::Err", "Err", list(err.fields))))
                    else:
                        outs.append((s2, VAgg("Result::Ok", "Ok", [VVec([e.fields[0] for e in els])])))
                else:
                    outs.append((s2, VVec(els)))
            elif op == "count":
                outs.append((s2, _u64(len(els))))
            elif op in ("any", "all"):
                partial = [(s2, z3.BoolVal(op == "all"))]
                for e in els:
                    nxt = []
                    for (s3, acc) in partial:
                        for (s4, r) in exe.call_closure(s3, args[1], [e]):
                            nxt.append((s4, z3.Or(acc, r.e) if op == "any" else z3.And(acc, r.e)))
                    partial = nxt
                outs.extend((s5, VBool(acc)) for (s5, acc) in partial)
            elif op == "fold":
                partial = [(s2, args[1])]
                for e in els:
                    nxt = []
                    for (s3, acc) in partial:
                        nxt.extend(exe.call_closure(s3, args[2], [acc, e]))
                    partial = nxt
                outs.extend(partial)
            elif op == "max":
                if not els:
                    outs.append((s2, VAgg("Option::None", "None", [])))
                    continue
                vals = [_int(exe, s2, e) for e in els]
                if any(v is None for v in vals):
                    raise PathEnd("max over non-integers")
                best = vals[0]
                for v in vals[1:]:
                    ge = (v.e >= best.e) if v.signed else z3.UGE(v.e, best.e)
                    best = VInt(z3.If(ge, v.e, best.e), v.bits, v.signed)
                outs.append((s2, VAgg("Option::Some", "Some", [best])))
            elif op == "max_by_key":
                if not els:
                    outs.append((s2, VAgg("Option::None", "None", [])))
                    continue
                partial = [(s2, [])]
                for e in els:
                    nxt = []
                    for (s3, acc) in partial:
                        for (s4, k) in exe.call_closure(s3, args[1], [VRef("val", e)]):
                            nxt.append((s4, acc + [k]))
                    partial = nxt
                for (s5, keys) in partial:
                    best, bestk = els[0], keys[0]
                    for e, k in zip(els[1:], keys[1:]):
                        ge, _ = _key_ge(exe, s5, k, bestk)  # the last maximum wins
                        best = ite_value([(ge, e)], best)
                        bestk = ite_value([(ge, _deref_keys(exe, s5, k))], _deref_keys(exe, s5, bestk))
                    outs.append((s5, VAgg("Option::Some", "Some", [best])))
        return outs
    return None


def _deref_keys(exe, st, k):
    k = _deref_all(exe, st, k)
    if isinstance(k, VAgg):
        return VAgg(k.path, k.variant, [_deref_keys(exe, st, x) for x in k.fields], k.names)
    return k


def misc_summaries(exe, st, f, bb, c, args, dest_ty):
    # ---- `?` on Result -----------------------------------------------------------------
    if re.search(r"<std::result::Result<.*> as Try>::branch$", c):
        v = args[0]
        if isinstance(v, VAgg) and v.variant in ("Ok", "Err"):
            if v.variant == "Ok":
                return [(st, VAgg("ControlFlow::Continue", "Continue", [v.fields[0] if v.fields else VUnit()]))]
            return [(st, VAgg("ControlFlow::Break", "Break", [VAgg("Result::Err", "Err", list(v.fields))]))]
        if isinstance(v, VOpaque):
            # unknown outcome: both, as separate paths
            ok_ty = "?"
            m = re.match(r"std::result::Result<(.*), [^,]*>$", v.ty.strip())
            if m:
                ok_ty = m.group(1)
            flag = z3.Bool(exe.fresh_name(v.name + ".is_ok"))
            outs = []
            s_ok = st.clone()
            s_ok.pc.append(flag)
            outs.append((s_ok, VAgg("ControlFlow::Continue", "Continue", [exe.fresh(ok_ty, v.name + ".ok", s_ok)])))
            s_err = st.clone()
            s_err.pc.append(z3.Not(flag))
            outs.append((s_err, VAgg("ControlFlow::Break", "Break", [VAgg("Result::Err", "Err", [VOpaque("?", v.name + ".err")])])))
            return outs
        return None
    if re.search(r" as FromResidual<.*>>::from_residual$", c):
        v = args[0]
        if isinstance(v, VAgg) and v.variant == "Err":
            return [(st, VAgg("Result::Err", "Err", list(v.fields)))]
        if isinstance(v, VOpaque) and "::Err(" in v.name:
            m = re.search(r"::Err\((?:const )?([\w:]+)\)", v.name)
            inner = VAgg(m.group(1), m.group(1).split("::")[-1], []) if m else VOpaque("?", "err")
            return [(st, VAgg("Result::Err", "Err", [inner]))]
        return None
    # ---- Cell -----------------------------------------------------------------------------
    if re.search(r"Cell::<.*>::get$", c):
        v = _deref_all(exe, st, args[0])
        if isinstance(v, VAgg) and v.path == "Cell":
            return [(st, v.fields[0])]
        return None
    if re.search(r"Cell::<.*>::new$", c):
        return [(st, VAgg("Cell", None, [args[0]]))]
    if re.search(r"Box::<\[.*\]>::new_uninit$", c):
        exe.cell_n += 1
        cid = "cell%d" % exe.cell_n
        hole = VAgg("MaybeUninit", None, [VUnit(), VAgg("ManuallyDrop", None, [VAgg("MaybeDangling", None, [VOpaque("?", "uninit")])])])
        st.cells[cid] = hole
        exe.global_cells.setdefault(cid, hole)
        return [(st, VAgg("Box", None, [VAgg("Unique", None, [VRef("cell", cid)])]))]
    if re.search(r"box_assume_init_into_vec_unsafe::<", c):
        b = args[0]
        if isinstance(b, VAgg) and b.path == "Box":
            inner = exe.deref(st, b.fields[0].fields[0])
            arr = inner.fields[1].fields[0].fields[0]
            if isinstance(arr, VVec):
                return [(st, arr)]
        return None
    if re.search(r"Box::<.*>::new$", c):
        return [(st, VAgg("Box", None, [args[0]]))]
    # ---- TextRenderer derefs to its top SubRenderer --------------------------------------------
    if re.search(r"<TextRenderer<\w+> as Deref(Mut)?>::deref(_mut)?$", c):
        tr = args[0]
        base = _deref_all(exe, st, tr)
        if isinstance(base, VOpaque):
            if "#top" not in base.memo:
                exe.cell_n += 1
                cid = "cell%d" % exe.cell_n
                exe.global_cells[cid] = VOpaque("SubRenderer<D>", base.name + ".top")
                base.memo["#top"] = VRef("cell", cid)
            return [(st, base.memo["#top"])]
        return None
    return None
