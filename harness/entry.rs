//! Native replay entry point (only compiled with `--cfg verif_replay`).
//! `run(name, data)` loads the byte vectors of a Kani counterexample into
//! the `kani::any()` shim and calls the harness function `name`; a panic
//! (exit status 101) means the counterexample reproduces on the native build.

/// Run harness `name` on the given values; returns false if there is no such harness.
pub fn run(name: &str, data: Vec<Vec<u8>>) -> bool {
    crate::verif_common::kani::load(data);
    if name == "width_model_selftest" {
        crate::verif_common::width_model_selftest();
        return true;
    }
    let f = crate::verif_root::dispatch(name)
        .or_else(|| crate::render::text_renderer::verif_tr::dispatch(name));
    #[cfg(feature = "css")]
    let f = f
        .or_else(|| crate::css::verif_css::dispatch(name))
        .or_else(|| crate::css::verif_css::parser_dispatch(name));
    match f {
        Some(f) => {
            f();
            eprintln!(
                "VERIF-REPLAY: harness {} completed without failure; drew {:?}; {} values unused",
                name,
                crate::verif_common::kani::drawn(),
                crate::verif_common::kani::remaining()
            );
            true
        }
        None => false,
    }
}

/// Values drawn so far by the running harness (for reports).
pub fn drawn() -> Vec<String> {
    crate::verif_common::kani::drawn()
}
