// Shared harness support: child module `verif_common` of the crate root.
//
// * Under Kani (`cfg(kani)`) the `kani` crate is in the extern prelude and
//   this file only contributes stubs, the width model and helper decorators.
// * Under native replay (`cfg(verif_replay)`) a shim module `kani` supplies
//   `any()` from a queue of byte vectors decoded from a Kani counterexample,
//   `assume` (a failed assumption aborts the replay with exit code 3: the
//   counterexample does not belong to the harness), and a no-op `cover!`.
#![allow(dead_code, unused_imports, unused_macros)]

#[cfg(not(kani))]
pub(crate) mod kani {
    use std::cell::RefCell;
    use std::collections::VecDeque;

    thread_local! {
        static QUEUE: RefCell<VecDeque<Vec<u8>>> = RefCell::new(VecDeque::new());
        static DRAWN: RefCell<Vec<String>> = RefCell::new(Vec::new());
    }

    pub(crate) fn load(data: Vec<Vec<u8>>) {
        QUEUE.with(|q| *q.borrow_mut() = data.into_iter().collect());
    }
    pub(crate) fn drawn() -> Vec<String> {
        DRAWN.with(|d| d.borrow().clone())
    }
    pub(crate) fn remaining() -> usize {
        QUEUE.with(|q| q.borrow().len())
    }

    pub(crate) trait Arb: Sized {
        fn from_bytes(b: &[u8]) -> Self;
        fn show(&self) -> String;
    }
    macro_rules! arb_int {
        ($($t:ty),*) => {$(
            impl Arb for $t {
                fn from_bytes(b: &[u8]) -> Self {
                    let mut a = [0u8; std::mem::size_of::<$t>()];
                    if b.len() != a.len() {
                        eprintln!("VERIF-REPLAY: width mismatch: wanted {} bytes for {}, got {}",
                                  a.len(), stringify!($t), b.len());
                        std::process::exit(4);
                    }
                    a.copy_from_slice(b);
                    <$t>::from_le_bytes(a)
                }
                fn show(&self) -> String { format!("{}:{}", self, stringify!($t)) }
            }
        )*};
    }
    arb_int!(u8, u16, u32, u64, usize, i8, i16, i32, i64, isize);
    impl Arb for bool {
        fn from_bytes(b: &[u8]) -> Self {
            if b.len() != 1 {
                eprintln!("VERIF-REPLAY: width mismatch for bool");
                std::process::exit(4);
            }
            b[0] != 0
        }
        fn show(&self) -> String {
            format!("{}", self)
        }
    }

    pub(crate) fn any<T: Arb>() -> T {
        let next = QUEUE.with(|q| q.borrow_mut().pop_front());
        match next {
            Some(b) => {
                let v = T::from_bytes(&b);
                DRAWN.with(|d| d.borrow_mut().push(v.show()));
                v
            }
            None => {
                eprintln!("VERIF-REPLAY: counterexample exhausted (harness draws more values than the trace has)");
                std::process::exit(4);
            }
        }
    }

    pub(crate) fn assume(c: bool) {
        if !c {
            eprintln!("VERIF-REPLAY: assumption failed: the values are outside the harness's input space");
            std::process::exit(3);
        }
    }

    macro_rules! cover {
        ($($t:tt)*) => {};
    }
    pub(crate) use cover;
}

macro_rules! registry {
    ($($name:ident),* $(,)?) => {
        pub(crate) fn dispatch(name: &str) -> Option<fn()> {
            $( if name == stringify!($name) { return Some($name as fn()); } )*
            None
        }
        pub(crate) const NAMES: &[&str] = &[$(stringify!($name)),*];
    };
}
pub(crate) use registry;

// ---------------------------------------------------------------------
// Width model used as a stub for unicode-width under Kani.
//
// Harness alphabets only contain characters on which the model agrees with
// the real crate; `bin/check` validates that natively on thorough runs
// (`verif_replay("width_model_selftest")`).
// ---------------------------------------------------------------------

pub(crate) fn model_char_width(c: char) -> Option<usize> {
    let u = c as u32;
    if u == 0 {
        Some(0)
    } else if u < 0x20 || (0x7f..0xa0).contains(&u) {
        None
    } else if (0x300..=0x36f).contains(&u) {
        Some(0)
    } else if (0x4e00..=0x9fff).contains(&u) || (0xff01..=0xff60).contains(&u) || (0x3000..=0x303e).contains(&u) {
        Some(2)
    } else {
        Some(1)
    }
}

pub(crate) fn model_str_width(s: &str) -> usize {
    let mut w = 0usize;
    for c in s.chars() {
        w += model_char_width(c).unwrap_or(0);
    }
    w
}

/// Stub with the signature of `unicode_width::tables::str_width`.
pub(crate) fn stub_str_width(s: &str) -> usize {
    model_str_width(s)
}

/// Width of a string that is known to be printable ASCII (the ordered-list markers of `KDec::plain_like`
/// are decimal digits, '-', '.', ')' and spaces): one column per byte.  Used where the string has a
/// symbolic length, so that no per-character loop has to be unwound.
pub(crate) fn stub_str_width_ascii(s: &str) -> usize {
    s.len()
}

/// Byte-level version of the width model (no `chars()` decoding): the width
/// of a well-formed UTF-8 string is the sum over lead bytes.  Agrees with
/// `model_str_width` on the harness alphabet (checked by the self-test).
pub(crate) fn stub_str_width_bytes(s: &str) -> usize {
    let b = s.as_bytes();
    let n = b.len();
    let mut w = 0usize;
    let mut i = 0usize;
    while i < n {
        let c = b[i];
        if c < 0x80 {
            if c >= 0x20 && c != 0x7f {
                w += 1;
            }
            i += 1;
        } else if c < 0xe0 {
            // 2-byte: U+0080..U+07FF; combining marks U+0300..U+036F are CC 80..CD AF
            let d = if i + 1 < n { b[i + 1] } else { 0 };
            let zero = (c == 0xcc) || (c == 0xcd && d <= 0xaf) || (c == 0xc2 && d < 0xa0);
            if !zero {
                w += 1;
            }
            i += 2;
        } else if c < 0xf0 {
            // 3-byte: wide for U+3000..U+303E, U+4E00..U+9FFF, U+FF01..U+FF60
            let d = if i + 1 < n { b[i + 1] } else { 0 };
            let e = if i + 2 < n { b[i + 2] } else { 0 };
            let cp = (((c & 0x0f) as u32) << 12) | (((d & 0x3f) as u32) << 6) | ((e & 0x3f) as u32);
            let wide = (0x4e00..=0x9fff).contains(&cp) || (0xff01..=0xff60).contains(&cp) || (0x3000..=0x303e).contains(&cp);
            w += if wide { 2 } else { 1 };
            i += 3;
        } else {
            w += 1;
            i += 4;
        }
    }
    w
}

/// Stub with the signature of `unicode_width::tables::single_char_width`.
pub(crate) fn stub_single_char_width(c: char) -> Option<usize> {
    model_char_width(c)
}

/// Characters the harness alphabets may use (each is checked against the
/// real unicode-width crate by the self-test).
pub(crate) const MODEL_ALPHABET: &[char] = &[
    'a', 'b', 'W', 'x', 'y', 'z', ' ', '>', '*', '#', '.', '0', '1', '9', '-', '[', ']', ':',
    '§', '•', '│', '─', '┬', '┴', '┼', '/', 'é', '）', '〖', '字', '\u{301}', '\u{336}',
    '\n', '\t',
];

pub(crate) fn width_model_selftest() {
    use unicode_width::{UnicodeWidthChar, UnicodeWidthStr};
    for &c in MODEL_ALPHABET {
        if c == '\n' || c == '\t' {
            continue;
        }
        assert_eq!(
            UnicodeWidthChar::width(c),
            model_char_width(c),
            "width model disagrees with unicode-width on {:?}",
            c
        );
    }
    // All strings of length <= 3 over the alphabet (no emoji/ZWJ state there).
    let alpha: Vec<char> = MODEL_ALPHABET
        .iter()
        .cloned()
        .filter(|c| *c != '\n' && *c != '\t')
        .collect();
    let mut n = 0usize;
    for &a in &alpha {
        for &b in &alpha {
            for &c in &alpha {
                let s: String = [a, b, c].iter().collect();
                assert_eq!(
                    UnicodeWidthStr::width(s.as_str()),
                    model_str_width(&s),
                    "width model disagrees on {:?}",
                    s
                );
                assert_eq!(model_str_width(&s), stub_str_width_bytes(&s), "byte-level model disagrees on {:?}", s);
                n += 1;
            }
        }
    }
    println!("width model self-test: {} strings agree with unicode-width", n);
}

// ---------------------------------------------------------------------
// Harness decorator: a user decorator is an *input* of the public API.
// Prefix strings are chosen (symbolically) from a table; the ordered item
// prefix has the decimal length of `PlainDecorator`'s "{i}. " computed by
// thresholds (no core::fmt under the solver).
// ---------------------------------------------------------------------

pub(crate) fn dec_len_i64(i: i64) -> usize {
    // number of chars of format!("{}", i)
    let (neg, mut m) = if i < 0 {
        (1usize, (i as i128).unsigned_abs())
    } else {
        (0usize, i as u128)
    };
    let mut digits = 1usize;
    let mut k = 0;
    while k < 19 {
        if m >= 10 {
            m /= 10;
            digits += 1;
        }
        k += 1;
    }
    neg + digits
}

/// Closed-form decimal length (no loop): used under the solver.
pub(crate) fn dec_len_i64_thresholds(i: i64) -> usize {
    let neg = if i < 0 { 1 } else { 0 };
    let m: u64 = i.unsigned_abs();
    let d = if m < 10 {
        1
    } else if m < 100 {
        2
    } else if m < 1_000 {
        3
    } else if m < 10_000 {
        4
    } else if m < 100_000 {
        5
    } else if m < 1_000_000 {
        6
    } else if m < 10_000_000 {
        7
    } else if m < 100_000_000 {
        8
    } else if m < 1_000_000_000 {
        9
    } else if m < 10_000_000_000 {
        10
    } else if m < 100_000_000_000 {
        11
    } else if m < 1_000_000_000_000 {
        12
    } else if m < 10_000_000_000_000 {
        13
    } else if m < 100_000_000_000_000 {
        14
    } else if m < 1_000_000_000_000_000 {
        15
    } else if m < 10_000_000_000_000_000 {
        16
    } else if m < 100_000_000_000_000_000 {
        17
    } else if m < 1_000_000_000_000_000_000 {
        18
    } else if m < 10_000_000_000_000_000_000 {
        19
    } else {
        20
    };
    neg + d
}

/// A string of `n` ASCII 'x' built without fmt, n <= 24.
pub(crate) fn ascii_of_len(n: usize) -> String {
    const X: &str = "xxxxxxxxxxxxxxxxxxxxxxxx";
    X[..n.min(24)].to_string()
}

pub(crate) const PREFIX_TABLE: &[&str] = &["", "> ", "* ", "│ ", "）", "§§ ", "#### "];

#[derive(Clone, Debug)]
pub(crate) struct KDec {
    pub quote: u8,
    pub ul: u8,
    pub header: u8,
    /// suffix appended after the decimal digits in ordered prefixes
    pub ol_suffix: u8,
}

pub(crate) const OL_SUFFIX_TABLE: &[&str] = &[". ", ") ", "）", ""];

impl KDec {
    pub(crate) fn plain_like() -> KDec {
        KDec {
            quote: 1,
            ul: 2,
            header: 6,
            ol_suffix: 0,
        }
    }
}

impl crate::render::TextDecorator for KDec {
    type Annotation = ();
    fn decorate_link_start(&mut self, _url: &str) -> (String, ()) {
        ("[".to_string(), ())
    }
    fn decorate_link_end(&mut self) -> String {
        "]".to_string()
    }
    fn decorate_em_start(&self) -> (String, ()) {
        ("*".to_string(), ())
    }
    fn decorate_em_end(&self) -> String {
        "*".to_string()
    }
    fn decorate_strong_start(&self) -> (String, ()) {
        ("**".to_string(), ())
    }
    fn decorate_strong_end(&self) -> String {
        "**".to_string()
    }
    fn decorate_strikeout_start(&self) -> (String, ()) {
        ("~~".to_string(), ())
    }
    fn decorate_strikeout_end(&self) -> String {
        "~~".to_string()
    }
    fn decorate_code_start(&self) -> (String, ()) {
        ("`".to_string(), ())
    }
    fn decorate_code_end(&self) -> String {
        "`".to_string()
    }
    fn decorate_preformat_first(&self) {}
    fn decorate_preformat_cont(&self) {}
    fn decorate_image(&mut self, _src: &str, title: &str) -> (String, ()) {
        (title.to_string(), ())
    }
    fn header_prefix(&self, _level: usize) -> String {
        PREFIX_TABLE[self.header as usize % PREFIX_TABLE.len()].to_string()
    }
    fn quote_prefix(&self) -> String {
        PREFIX_TABLE[self.quote as usize % PREFIX_TABLE.len()].to_string()
    }
    fn unordered_item_prefix(&self) -> String {
        PREFIX_TABLE[self.ul as usize % PREFIX_TABLE.len()].to_string()
    }
    fn ordered_item_prefix(&self, i: i64) -> String {
        let mut s = ascii_of_len(dec_len_i64_thresholds(i));
        s.push_str(OL_SUFFIX_TABLE[self.ol_suffix as usize % OL_SUFFIX_TABLE.len()]);
        s
    }
    fn make_subblock_decorator(&self) -> Self {
        self.clone()
    }
}

/// `mem::swap` replacement for the solver (std's implementation swaps byte
/// chunks, which is expensive to bit-blast); identical semantics.
pub(crate) fn stub_swap<T>(a: &mut T, b: &mut T) {
    unsafe {
        let t = std::ptr::read(a);
        std::ptr::write(a, std::ptr::read(b));
        std::ptr::write(b, t);
    }
}

/// `alloc::fmt::format` replacement for harnesses whose assertions do not
/// read formatted text.
pub(crate) fn stub_format(_args: std::fmt::Arguments<'_>) -> String {
    String::new()
}
