// Harnesses that are a child module of the crate root (`crate::verif_root`):
// they can see the private items of src/lib.rs.
#![allow(dead_code, unused_imports, unused_variables, unused_mut)]

use super::*;
#[cfg(not(kani))]
use crate::verif_common::kani;
use crate::verif_common::*;

// ---------------------------------------------------------------------
// R1  WithSpec::maybe_update against the CSS cascade (C19)
// ---------------------------------------------------------------------

#[derive(Clone, Copy)]
struct Decl {
    important: bool,
    origin: u8, // 1 agent, 2 user, 3 author
    inline: bool,
    id: u16,
    class: u16,
    typ: u16,
    val: u8,
}

fn origin_of(o: u8) -> StyleOrigin {
    match o {
        1 => StyleOrigin::Agent,
        2 => StyleOrigin::User,
        _ => StyleOrigin::Author,
    }
}

/// CSS cascade rank of (importance, origin): agent < user < author <
/// author! < user! < agent!
fn rank(d: &Decl) -> u8 {
    if d.important {
        match d.origin {
            3 => 3,
            2 => 4,
            _ => 5,
        }
    } else {
        d.origin - 1
    }
}

/// `a` beats-or-ties `b` when `a` comes later in application order.
fn key_ge(a: &Decl, b: &Decl) -> bool {
    let (ra, rb) = (rank(a), rank(b));
    if ra != rb {
        return ra > rb;
    }
    if a.inline != b.inline {
        return a.inline;
    }
    if a.id != b.id {
        return a.id > b.id;
    }
    if a.class != b.class {
        return a.class > b.class;
    }
    if a.typ != b.typ {
        return a.typ > b.typ;
    }
    true // tie: the later declaration wins
}

fn any_decl(max_spec: u16) -> Decl {
    let d = Decl {
        important: kani::any(),
        origin: kani::any(),
        inline: kani::any(),
        id: kani::any(),
        class: kani::any(),
        typ: kani::any(),
        val: 0,
    };
    kani::assume(d.origin >= 1 && d.origin <= 3);
    kani::assume(d.id <= max_spec && d.class <= max_spec && d.typ <= max_spec);
    // Inline declarations come from the style attribute: author origin,
    // no selector specificity.
    if d.inline {
        kani::assume(d.origin == 3 && d.id == 0 && d.class == 0 && d.typ == 0);
    }
    d
}

/// The order in which `StyleData::computed_style` presents declarations:
/// agent rules, user rules, author rules, then the style attribute.
fn presented_in_order(a: &Decl, b: &Decl) -> bool {
    a.origin <= b.origin && (!a.inline || b.inline)
}

fn apply(ws: &mut WithSpec<u8>, d: &Decl) {
    ws.maybe_update(
        d.important,
        origin_of(d.origin),
        Specificity {
            inline: d.inline,
            id: d.id,
            class: d.class,
            typ: d.typ,
        },
        d.val,
    );
}

#[cfg_attr(kani, kani::proof)]
#[cfg_attr(kani, kani::unwind(2))]
pub(crate) fn r1_cascade_pairs() {
    let mut a = any_decl(u16::MAX);
    let mut b = any_decl(u16::MAX);
    a.val = 1;
    b.val = 2;
    kani::assume(presented_in_order(&a, &b));
    let mut ws: WithSpec<u8> = Default::default();
    apply(&mut ws, &a);
    apply(&mut ws, &b);
    let expect = if key_ge(&b, &a) { 2 } else { 1 };
    kani::cover!(expect == 1);
    kani::cover!(expect == 2 && a.important && !b.important == false);
    assert!(ws.val() == Some(&expect), "cascade winner of two declarations");
}

#[cfg_attr(kani, kani::proof)]
#[cfg_attr(kani, kani::unwind(2))]
pub(crate) fn r1_cascade_triples() {
    let mut a = any_decl(3);
    let mut b = any_decl(3);
    let mut c = any_decl(3);
    a.val = 1;
    b.val = 2;
    c.val = 3;
    kani::assume(presented_in_order(&a, &b));
    kani::assume(presented_in_order(&b, &c));
    let mut ws: WithSpec<u8> = Default::default();
    apply(&mut ws, &a);
    apply(&mut ws, &b);
    apply(&mut ws, &c);
    // reference: streaming maximum, later wins ties
    let mut best = a;
    if key_ge(&b, &best) {
        best = b;
    }
    if key_ge(&c, &best) {
        best = c;
    }
    kani::cover!(best.val == 1);
    kani::cover!(best.val == 2);
    kani::cover!(best.val == 3);
    assert!(ws.val() == Some(&best.val), "cascade winner of three declarations");
}

// ---------------------------------------------------------------------
// R2  Specificity ordering and addition (C19)
// ---------------------------------------------------------------------

fn any_spec() -> Specificity {
    Specificity {
        inline: kani::any(),
        id: kani::any(),
        class: kani::any(),
        typ: kani::any(),
    }
}

#[cfg_attr(kani, kani::proof)]
pub(crate) fn r2_specificity_order() {
    use std::cmp::Ordering::*;
    let a = any_spec();
    let b = any_spec();
    // NB: Kani 0.68 mis-encodes the ordering operators on symbolic `bool`
    // (measured: `true > false` fails); compare through u8.
    let ka = (a.inline as u8, a.id, a.class, a.typ);
    let kb = (b.inline as u8, b.id, b.class, b.typ);
    let expect = if ka < kb {
        Less
    } else if ka > kb {
        Greater
    } else {
        Equal
    };
    kani::cover!(expect == Less);
    kani::cover!(expect == Equal);
    assert!(a.partial_cmp(&b) == Some(expect));
    assert!((a < b) == (expect == Less));
    assert!((a == b) == (expect == Equal));
}

#[cfg_attr(kani, kani::proof)]
pub(crate) fn r2_specificity_add() {
    let a = any_spec();
    let b = any_spec();
    // A selector has far fewer than 2^15 components of each kind.
    kani::assume(a.id < 0x8000 && a.class < 0x8000 && a.typ < 0x8000);
    kani::assume(b.id < 0x8000 && b.class < 0x8000 && b.typ < 0x8000);
    let s = &a + &b;
    assert!(s.inline == (a.inline || b.inline));
    assert!(s.id == a.id + b.id && s.class == a.class + b.class && s.typ == a.typ + b.typ);
    let mut t = a;
    t += &b;
    assert!(t == s);
    kani::cover!(s.id > 0 && s.inline);
}

// ---------------------------------------------------------------------
// R3/R4  ordered list prefix size (C01, C07, C16)
// ---------------------------------------------------------------------

#[cfg_attr(kani, kani::proof)]
#[cfg_attr(kani, kani::unwind(26))]
#[cfg_attr(kani, kani::stub(unicode_width::tables::str_width, crate::verif_common::stub_str_width_ascii))]
pub(crate) fn r3_ol_prefix_total() {
    let start: i64 = kani::any();
    let items: usize = kani::any();
    // an <ol> can hold zero <li> (its only children may be text)
    kani::assume(items <= (1usize << 32));
    let dec = KDec::plain_like();
    let w = calc_ol_prefix_size(start, items, &dec);
    kani::cover!(start > i64::MAX - 10 && items > 10);
    kani::cover!(start == i64::MIN && items == 0);
    assert!(w >= 3);
    std::mem::forget(dec);
}

#[cfg_attr(kani, kani::proof)]
#[cfg_attr(kani, kani::unwind(26))]
#[cfg_attr(kani, kani::stub(unicode_width::tables::str_width, crate::verif_common::stub_str_width_ascii))]
pub(crate) fn r4_ol_prefix_is_max() {
    let start: i64 = kani::any();
    let items: usize = kani::any();
    let k: usize = kani::any();
    kani::assume(items >= 1 && items <= (1usize << 32));
    kani::assume(k < items);
    // Region where the numbering itself is representable.
    kani::assume(start <= i64::MAX - (1i64 << 32));
    let dec = KDec::plain_like();
    let w = calc_ol_prefix_size(start, items, &dec);
    let nk = start + k as i64;
    let lk = dec_len_i64_thresholds(nk) + 2;
    kani::cover!(start < 0 && nk > 0);
    kani::cover!(start == 9 && k == 1);
    assert!(lk <= w, "every item's marker fits the common marker width");
    let l0 = dec_len_i64_thresholds(start) + 2;
    let l1 = dec_len_i64_thresholds(start + items as i64 - 1) + 2;
    assert!(w == l0 || w == l1, "the width is attained by an end of the list");
}

// ---------------------------------------------------------------------
// R9  tree_map_reduce: every child visited once, in order; reduction is
//     post-order; Nothing contributes nothing (C01, C03)
// ---------------------------------------------------------------------

/// Fixed tree shape: 0 -> [1, 2]; 1 -> [3]; 2, 3 leaves.
fn r9_children(n: u8) -> Vec<u8> {
    match n {
        0 => vec![1, 2],
        1 => vec![3],
        _ => Vec::new(),
    }
}

struct R9Ctx {
    /// per node: 0 = Nothing, 1 = Finished, 2 = PendingChildren
    choice: [u8; 4],
    /// order in which nodes were handed to process_node
    visit: [u8; 5],
    nvisit: usize,
    /// order in which nodes were completed (Finished or constructed)
    done: [u8; 5],
    ndone: usize,
    /// per node: how many child results its constructor received, and their sum
    got_n: [u8; 4],
    got_sum: [u8; 4],
}

fn r9_process(ctx: &mut R9Ctx, n: u8) -> Result<TreeMapResult<'static, R9Ctx, u8, u8>> {
    ctx.visit[ctx.nvisit] = n;
    ctx.nvisit += 1;
    Ok(match ctx.choice[n as usize] {
        0 => TreeMapResult::Nothing,
        1 => {
            ctx.done[ctx.ndone] = n;
            ctx.ndone += 1;
            TreeMapResult::Finished(n)
        }
        _ => TreeMapResult::PendingChildren {
            children: r9_children(n),
            cons: Box::new(move |ctx: &mut R9Ctx, cs: Vec<u8>| {
                ctx.got_n[n as usize] = cs.len() as u8;
                let mut sum = 0u8;
                for c in cs.iter() {
                    sum += *c;
                }
                ctx.got_sum[n as usize] = sum;
                ctx.done[ctx.ndone] = n;
                ctx.ndone += 1;
                std::mem::forget(cs);
                Ok(Some(n))
            }),
            prefn: None,
            postfn: None,
        },
    })
}

#[cfg_attr(kani, kani::proof)]
#[cfg_attr(kani, kani::unwind(6))]
pub(crate) fn r9_tree_map_reduce_order() {
    let c0: u8 = kani::any();
    let c1: u8 = kani::any();
    let c2: u8 = kani::any();
    let c3: u8 = kani::any();
    kani::assume(c0 <= 2 && c1 <= 2 && c2 <= 2 && c3 <= 2);
    let ch = [c0, c1, c2, c3];
    let mut ctx = R9Ctx {
        choice: ch,
        visit: [0xff; 5],
        nvisit: 0,
        done: [0xff; 5],
        ndone: 0,
        got_n: [0xff; 4],
        got_sum: [0; 4],
    };
    let res = tree_map_reduce(&mut ctx, 0u8, r9_process);
    let res = match res {
        Ok(r) => r,
        Err(_) => panic!("no error is ever raised by the callbacks"),
    };
    // ---- reference, written out for the fixed shape -----------------
    // A node is visited iff all its ancestors chose PendingChildren.
    let v1 = c0 == 2;
    let v2 = c0 == 2;
    let v3 = v1 && c1 == 2;
    let vis = [true, v1, v2, v3];
    // expected pre-order visit sequence 0,1,3,2 filtered by `vis`
    let pre = [0u8, 1, 3, 2];
    let mut ev = [0xffu8; 5];
    let mut ne = 0;
    let mut i = 0;
    while i < 4 {
        if vis[pre[i] as usize] {
            ev[ne] = pre[i];
            ne += 1;
        }
        i += 1;
    }
    assert!(ctx.nvisit == ne, "each reachable node is processed exactly once");
    let j: usize = kani::any();
    kani::assume(j < 5);
    assert!(ctx.visit[j] == ev[j], "children are processed left to right, depth first");
    // expected completion (post-order) 3,1,2,0 filtered by visited and not Nothing
    let post = [3u8, 1, 2, 0];
    let mut ed = [0xffu8; 5];
    let mut nd = 0;
    i = 0;
    while i < 4 {
        let n = post[i] as usize;
        if vis[n] && ch[n] != 0 {
            ed[nd] = post[i];
            nd += 1;
        }
        i += 1;
    }
    assert!(ctx.ndone == nd);
    assert!(ctx.done[j] == ed[j], "a parent is built after all of its children");
    // each constructor received exactly the results of its non-Nothing children
    let r = |n: usize| -> (u8, u8) {
        if ch[n] != 0 { (1, n as u8) } else { (0, 0) }
    };
    if vis[1] && c1 == 2 {
        assert!(ctx.got_n[1] == r(3).0 && ctx.got_sum[1] == r(3).1);
    }
    if c0 == 2 {
        assert!(ctx.got_n[0] == r(1).0 + r(2).0 && ctx.got_sum[0] == r(1).1 + r(2).1);
    }
    assert!(res == if c0 == 0 { None } else { Some(0) });
    kani::cover!(c0 == 2 && c1 == 2 && c2 == 1 && c3 == 0);
    kani::cover!(c0 == 2 && c1 == 0 && c2 == 2);
    kani::cover!(c0 == 1);
}

// ---------------------------------------------------------------------
// R12  Config builders -> HtmlContext -> RenderOptions plumbing; width 0
//      (C01, C10, C11, C15)
// ---------------------------------------------------------------------

#[cfg_attr(kani, kani::proof)]
#[cfg_attr(kani, kani::unwind(5))]
pub(crate) fn r12_config_plumbing() {
    use crate::config::with_decorator;
    let mut cfg = with_decorator(TrivialDecorator::new());
    // expected option values, starting from the documented defaults
    let mut e_max: Option<usize> = None;
    let mut e_pad = false;
    let mut e_over = false;
    let mut e_min = MIN_WIDTH;
    let mut e_raw = false;
    let mut e_borders = true;
    let mut e_wrap_links = true;
    let mut e_foot = false;
    let mut e_strike = true;
    // three builder calls, each chosen symbolically with symbolic arguments
    let mut k = 0;
    while k < 3 {
        let which: u8 = kani::any();
        kani::assume(which < 9);
        let n: usize = kani::any();
        let b: bool = kani::any();
        cfg = match which {
            0 => {
                e_pad = true;
                cfg.pad_block_width()
            }
            1 => {
                e_max = Some(n);
                cfg.max_wrap_width(n)
            }
            2 => {
                e_over = true;
                cfg.allow_width_overflow()
            }
            3 => {
                e_min = n;
                cfg.min_wrap_width(n)
            }
            4 => {
                e_raw = b;
                e_borders = false; // raw mode implies no borders
                cfg.raw_mode(b)
            }
            5 => {
                e_borders = false;
                cfg.no_table_borders()
            }
            6 => {
                e_wrap_links = false;
                cfg.no_link_wrapping()
            }
            7 => {
                e_strike = b;
                cfg.unicode_strikeout(b)
            }
            _ => {
                e_foot = b;
                cfg.link_footnotes(b)
            }
        };
        k += 1;
    }
    let ctx = cfg.make_context();
    assert!(ctx.max_wrap_width == e_max);
    assert!(ctx.pad_block_width == e_pad);
    assert!(ctx.allow_width_overflow == e_over);
    assert!(ctx.min_wrap_width == e_min);
    assert!(ctx.raw == e_raw);
    assert!(ctx.draw_borders == e_borders);
    assert!(ctx.wrap_links == e_wrap_links);
    assert!(ctx.include_link_footnotes == e_foot);
    assert!(ctx.use_unicode_strikeout == e_strike);
    // a second context from the same config is identical (staged and one-shot routes agree)
    let ctx2 = cfg.make_context();
    assert!(ctx2.max_wrap_width == ctx.max_wrap_width && ctx2.raw == ctx.raw
        && ctx2.min_wrap_width == ctx.min_wrap_width && ctx2.draw_borders == ctx.draw_borders
        && ctx2.pad_block_width == ctx.pad_block_width && ctx2.wrap_links == ctx.wrap_links
        && ctx2.allow_width_overflow == ctx.allow_width_overflow
        && ctx2.include_link_footnotes == ctx.include_link_footnotes
        && ctx2.use_unicode_strikeout == ctx.use_unicode_strikeout);
    kani::cover!(e_raw && e_max.is_some());
    kani::cover!(!e_raw && !e_borders);
    std::mem::forget(cfg);
    std::mem::forget(ctx);
    std::mem::forget(ctx2);
}

/// Width 0 is rejected before anything is rendered, whatever the options.
#[cfg_attr(kani, kani::proof)]
#[cfg_attr(kani, kani::unwind(3))]
pub(crate) fn r12_width_zero() {
    let mut ctx = default_ctx();
    ctx.allow_width_overflow = kani::any();
    ctx.raw = kani::any();
    ctx.pad_block_width = kani::any();
    ctx.min_wrap_width = kani::any();
    let tree = RenderTree(RenderNode::new(RenderNodeInfo::Break));
    let r = tree.render_with_context(&mut ctx, 0, TrivialDecorator::new());
    match r {
        Err(Error::TooNarrow) => {}
        _ => panic!("width 0 must give TooNarrow"),
    }
    kani::cover!(ctx.allow_width_overflow);
    std::mem::forget(ctx);
}

fn default_ctx() -> HtmlContext {
    HtmlContext {
        style_data: Default::default(),
        #[cfg(feature = "css")]
        use_doc_css: false,
        max_wrap_width: None,
        pad_block_width: false,
        allow_width_overflow: false,
        min_wrap_width: 3,
        raw: false,
        draw_borders: true,
        wrap_links: true,
        include_link_footnotes: false,
        use_unicode_strikeout: true,
    }
}

// ---------------------------------------------------------------------
// R14  SizeEstimate combinators: how minimum widths propagate (C11, C02)
// ---------------------------------------------------------------------
#[cfg_attr(kani, kani::proof)]
pub(crate) fn r14_size_estimate_ops() {
    let a = SizeEstimate { size: kani::any(), min_width: kani::any(), prefix_size: kani::any() };
    let b = SizeEstimate { size: kani::any(), min_width: kani::any(), prefix_size: kani::any() };
    kani::assume(a.size <= 1 << 40 && b.size <= 1 << 40 && a.min_width <= 1 << 40 && b.min_width <= 1 << 40);
    // stacking blocks: sizes add, the widest minimum wins
    let s = a.add(b);
    assert!(s.size == a.size + b.size);
    assert!(s.min_width >= a.min_width && s.min_width >= b.min_width);
    assert!(s.min_width == a.min_width || s.min_width == b.min_width);
    assert!(s.prefix_size == 0);
    // a prefix next to its content: minimum widths add (prefix + content)
    let h = a.add_hor(b);
    assert!(h.size == a.size + b.size);
    assert!(h.min_width == a.min_width + b.min_width);
    assert!(h.prefix_size == 0);
    // column-wise maximum
    let m = a.max(b);
    assert!(m.size >= a.size && m.size >= b.size && (m.size == a.size || m.size == b.size));
    assert!(m.min_width >= a.min_width && m.min_width >= b.min_width);
    assert!(m.min_width == a.min_width || m.min_width == b.min_width);
    // identity element used by the folds
    let z: SizeEstimate = Default::default();
    let za = z.add(a);
    assert!(za.size == a.size && za.min_width == a.min_width);
    kani::cover!(a.min_width > b.min_width && a.size < b.size);
}

// ---------------------------------------------------------------------
// R15  WhiteSpace modes (C12): which modes keep spaces, which wrap
// ---------------------------------------------------------------------
#[cfg_attr(kani, kani::proof)]
pub(crate) fn r15_white_space_modes() {
    let k: u8 = kani::any();
    kani::assume(k < 3);
    let ws = match k {
        0 => WhiteSpace::Normal,
        1 => WhiteSpace::Pre,
        _ => WhiteSpace::PreWrap,
    };
    assert!(ws.preserve_whitespace() == (k != 0));
    assert!(ws.do_wrap() == (k != 1));
    let d: WhiteSpace = Default::default();
    assert!(d == WhiteSpace::Normal);
    kani::cover!(k == 2);
}

// ---------------------------------------------------------------------
// Native replay targets for the MIR-level checks (mirsym): plain functions
// that drive the real code with the solver's model.
// ---------------------------------------------------------------------

fn m_mk_cell(colspan: usize, size: usize, min_width: usize, mark: bool) -> RenderTableCell {
    let mut style: ComputedStyle = Default::default();
    style.internal_pre = mark;
    RenderTableCell {
        colspan,
        content: Vec::new(),
        size_estimate: Cell::new(Some(SizeEstimate { size, min_width, prefix_size: 0 })),
        col_width: None,
        style,
    }
}

/// RenderTableRow::into_cells on a row of up to 3 cells over up to 4 columns.
pub(crate) fn m_into_cells() {
    let vertical: bool = kani::any();
    let ncells: u8 = kani::any();
    let ncols: u8 = kani::any();
    kani::assume(ncells >= 1 && ncells <= 3 && ncols >= 1 && ncols <= 4);
    let spans: [usize; 3] = [kani::any(), kani::any(), kani::any()];
    let ws: [usize; 4] = [kani::any(), kani::any(), kani::any(), kani::any()];
    let mut cells = Vec::new();
    let mut tot = 0usize;
    for k in 0..ncells as usize {
        kani::assume(spans[k] >= 1 && spans[k] <= ncols as usize);
        tot += spans[k];
        cells.push(m_mk_cell(spans[k], 0, 0, k == 0));
    }
    kani::assume(tot <= ncols as usize);
    let col_sizes: Vec<usize> = ws[..ncols as usize].to_vec();
    let row = RenderTableRow { cells, col_sizes: Some(col_sizes.clone()), style: Default::default() };
    let out = row.into_cells(vertical);
    let mut colno = 0usize;
    let mut j = 0usize;
    for k in 0..ncells as usize {
        let base: usize = if vertical { col_sizes[colno] } else { col_sizes[colno..colno + spans[k]].iter().sum() };
        if base > 0 {
            let cell = match &out[j].info {
                RenderNodeInfo::TableCell(c) => c,
                _ => panic!("not a cell"),
            };
            assert!(cell.style.internal_pre == (k == 0), "cells keep their order");
            let w = cell.col_width.expect("width assigned");
            if vertical {
                assert!(w <= col_sizes[0], "stacked cell wider than the table: {} > {}", w, col_sizes[0]);
                assert!(w >= 1);
            } else {
                assert!(w == base + spans[k] - 1, "cell width {} != sum of columns {} + separators", w, base);
            }
            j += 1;
        }
        colno += spans[k];
    }
    assert!(j == out.len(), "exactly the zero-width cells are skipped");
}

/// render_table_tree on a one-row, two-column table whose first column has the given estimate.
pub(crate) fn m_table_col_width() {
    let size: usize = kani::any();
    let min_width: usize = kani::any();
    let width: usize = kani::any();
    let tot: usize = kani::any();
    kani::assume(width >= 1 && tot >= size && min_width <= size);
    let row = RenderTableRow {
        cells: vec![m_mk_cell(1, size, min_width, true), m_mk_cell(1, tot - size, 0, false)],
        col_sizes: None,
        style: Default::default(),
    };
    let table = RenderTable { rows: vec![row], num_columns: 2, size_estimate: Cell::new(None) };
    let mut opts = RenderOptions::default();
    opts.draw_borders = false;
    let sub = SubRenderer::new(width, opts, TrivialDecorator::new());
    let mut tr = TextRenderer::new(sub);
    let r = render_table_tree(&mut tr, table, &mut std::io::sink());
    let children = match r {
        Ok(TreeMapResult::PendingChildren { children, .. }) => children,
        _ => panic!("render_table_tree failed"),
    };
    let (cols, vert) = match &children[0].info {
        RenderNodeInfo::TableRow(tr, v) => (tr.col_sizes.clone().unwrap(), *v),
        _ => panic!("not a row"),
    };
    if !vert {
        assert!(cols[0] + cols[1] + 1 <= width || cols[0] + cols[1] <= width, "columns exceed the table width");
        assert!(cols[0] <= size, "column wider than its content");
        if size > 0 && min_width > 0 {
            assert!(cols[0] >= 1, "a column with content got no space");
        }
    }
}

/// render_table_tree on a table of preset cell estimates (shape and values from the solver's model).
pub(crate) fn m_table_alloc() {
    let width: usize = kani::any();
    let raw: bool = kani::any();
    let nrows: u8 = kani::any();
    kani::assume(nrows >= 1 && nrows <= 3);
    let mut rows = Vec::new();
    let mut meta: Vec<Vec<(usize, usize, usize)>> = Vec::new();
    let mut ncols = 0usize;
    for _ in 0..nrows {
        let ncells: u8 = kani::any();
        kani::assume(ncells >= 1 && ncells <= 4);
        let mut cells = Vec::new();
        let mut m = Vec::new();
        let mut tot = 0usize;
        for k in 0..ncells {
            let span: usize = kani::any();
            let size: usize = kani::any();
            let minw: usize = kani::any();
            kani::assume(span >= 1 && span <= 4 && minw <= size);
            tot += span;
            cells.push(m_mk_cell(span, size, minw, k == 0));
            m.push((span, size, minw));
        }
        ncols = ncols.max(tot);
        rows.push(RenderTableRow { cells, col_sizes: None, style: Default::default() });
        meta.push(m);
    }
    let table = RenderTable { rows, num_columns: ncols, size_estimate: Cell::new(None) };
    let mut opts = RenderOptions::default();
    opts.draw_borders = false;
    opts.raw = raw;
    let sub = SubRenderer::new(width, opts, TrivialDecorator::new());
    let mut tr = TextRenderer::new(sub);
    let r = render_table_tree(&mut tr, table, &mut std::io::sink());
    let children = match r {
        Ok(TreeMapResult::PendingChildren { children, .. }) => children,
        _ => panic!("render_table_tree failed"),
    };
    let (cols, vert) = match &children[0].info {
        RenderNodeInfo::TableRow(tr, v) => (tr.col_sizes.clone().unwrap(), *v),
        _ => panic!("not a row"),
    };
    assert!(cols.len() == ncols);
    // reference estimates
    let mut col_size = vec![0usize; ncols];
    let mut col_min = vec![0usize; ncols];
    for m in &meta {
        let mut c = 0;
        for &(span, size, minw) in m {
            for k in c..c + span {
                col_size[k] = col_size[k].max(size / span);
                col_min[k] = col_min[k].max(minw / span);
            }
            c += span;
        }
    }
    let min_size: usize = col_min.iter().sum::<usize>() + ncols - 1;
    assert!(vert == (raw || min_size > width || width == 0), "stacked layout decision");
    if !vert {
        assert!(cols.iter().sum::<usize>() + ncols - 1 <= width, "columns exceed the table width");
        for k in 0..ncols {
            assert!(cols[k] >= col_min[k], "column {} below its minimum width", k);
            assert!(cols[k] <= col_size[k], "column {} wider than its content", k);
        }
        for m in &meta {
            let mut c = 0;
            for &(span, size, minw) in m {
                if size > 0 && minw > 0 {
                    assert!(cols[c..c + span].iter().sum::<usize>() > 0, "a cell with content got no column width");
                }
                c += span;
            }
        }
    } else {
        for k in 0..ncols {
            assert!(cols[k] == width);
        }
    }
}

/// Block prefixes of a custom decorator are measured in columns: a blockquote and a list rendered
/// with non-ASCII prefixes ("│ " is 4 bytes / 2 columns, "• " likewise) through the public API.
pub(crate) fn m_prefix_width() {
    let which: u8 = kani::any();
    let dec = KDec { quote: 3, ul: 3, header: 3, ol_suffix: 0 };
    let html: &[u8] = if which % 2 == 0 {
        b"<blockquote>a</blockquote><blockquote>hello world</blockquote>"
    } else {
        b"<ul><li>a</li><li>hello world</li></ul><h1>t</h1>"
    };
    for width in [3usize, 4, 5, 8, 20] {
        let r = crate::config::with_decorator(dec.clone()).string_from_read(html, width);
        match r {
            Ok(s) => {
                for line in s.lines() {
                    assert!(UnicodeWidthStr::width(line) <= width, "line {:?} wider than {}", line, width);
                }
            }
            Err(Error::TooNarrow) => {}
            Err(_) => panic!("unexpected error"),
        }
    }
}

/// Ordered-list markers of a custom decorator are measured in columns too ("1） " is 5 bytes, 3 characters, 4 columns).
pub(crate) fn m_ol_prefix_width() {
    let suffix: u8 = kani::any();
    let dec = KDec { quote: 0, ul: 0, header: 0, ol_suffix: suffix };
    let html: &[u8] = b"<ol><li>alpha beta gamma delta</li><li>x</li></ol><ol start=\"9\"><li>one two three four</li><li>five six seven eight nine</li></ol>";
    for width in [6usize, 8, 11, 20] {
        match crate::config::with_decorator(dec.clone()).string_from_read(html, width) {
            Ok(s) => {
                for line in s.lines() {
                    assert!(UnicodeWidthStr::width(line) <= width, "line {:?} wider than {}", line, width);
                }
            }
            Err(Error::TooNarrow) => {}
            Err(_) => panic!("unexpected error"),
        }
    }
}

/// An ordered list through the public API: numbers are consecutive from `start`, markers are padded
/// to the widest marker of the list, content starts right after the marker column.
pub(crate) fn m_ol_numbering() {
    let start: i64 = kani::any();
    let n: usize = kani::any();
    kani::assume(n <= 64);
    if n == 0 {
        // a list that keeps no item (stray content only) still goes through the numbering arithmetic
        for body in [" ", "stray text", "<p>para</p>"] {
            let html = format!("<ol start=\"{}\">{}</ol>", start, body);
            let _ = crate::config::plain().string_from_read(html.as_bytes(), 60);
        }
        return;
    }
    // the solver's witness, and the same oracle at the places where a wrong last number shows in the
    // output (the marker column changes width when the numbering crosses a power of ten or zero)
    let mut cases: Vec<(i64, usize)> = vec![(start, n)];
    for (s0, n0) in [(8i64, 2usize), (9, 1), (98, 2), (99, 1), (-1, 2), (-10, 1), (-10, 2), (1, 9), (1, 10)] {
        cases.push((s0, n0));
    }
    for (start, n) in cases {
        let mut html = format!("<ol start=\"{}\">", start);
        for _ in 0..n {
            html.push_str("<li>x</li>");
        }
        html.push_str("</ol>");
        let out = crate::config::plain().string_from_read(html.as_bytes(), 60).expect("renders at width 60");
        let last = start.saturating_add(n as i64 - 1);
        let wmax = std::cmp::max(format!("{}. ", start).len(), format!("{}. ", last).len());
        let lines: Vec<&str> = out.lines().collect();
        assert!(lines.len() == n, "one line per item");
        for (k, line) in lines.iter().enumerate() {
            let num = start.saturating_add(k as i64);
            let want = format!("{: <w$}x", format!("{}. ", num), w = wmax);
            assert!(*line == want, "list from {} with {} items, item {}: got {:?}, want {:?}", start, n, k, line, want);
        }
    }
}

// ---------------------------------------------------------------------
// Native replay targets driven through the public API (for mirsym specs
// whose findings are structural: call order, argument plumbing, marker position).
// ---------------------------------------------------------------------

fn rich_tokens(html: &[u8], width: usize, css: bool) -> Vec<(String, Vec<RichAnnotation>)> {
    let cfg = crate::config::rich();
    #[cfg(feature = "css")]
    let cfg = if css { cfg.use_doc_css() } else { cfg };
    let lines = cfg.lines_from_read(html, width).expect("renders");
    let mut out = Vec::new();
    for l in lines {
        for e in l.iter() {
            match e {
                render::TaggedLineElement::Str(ts) => {
                    for w in ts.s.split_whitespace() {
                        out.push((w.to_string(), ts.tag.clone()));
                    }
                }
                render::TaggedLineElement::FragmentStart(n) => out.push((format!("#{}", n), Vec::new())),
            }
        }
    }
    out
}

/// Colours of table cells and of the enclosing element do not leak into each other.
pub(crate) fn m_cell_unwind() {
    let _which: u8 = kani::any();
    let html = b"<div style=\"color:#ff0000\">before <table><tr><td style=\"color:#0000ff\">cella</td><td>cellb</td></tr></table>after</div><p>outside</p>";
    let toks = rich_tokens(html, 60, true);
    let red = RichAnnotation::Colour(Colour { r: 255, g: 0, b: 0 });
    let blue = RichAnnotation::Colour(Colour { r: 0, g: 0, b: 255 });
    let find = |w: &str| toks.iter().find(|(t, _)| t.contains(w)).map(|(_, a)| a.clone()).expect("token present");
    assert!(find("before") == vec![red.clone()]);
    assert!(find("cella") == vec![red.clone(), blue.clone()], "cell colour nests inside the enclosing colour");
    assert!(find("cellb") == vec![red.clone()], "the next cell keeps the enclosing colour only: {:?}", find("cellb"));
    assert!(find("after") == vec![red.clone()], "text after the table keeps the enclosing colour: {:?}", find("after"));
    assert!(find("outside").is_empty());
    // colour outside background, both popped at the end of the element
    let html2 = b"<p><span style=\"color:#ff0000;background-color:#0000ff\">both</span> plain</p>";
    let t2 = rich_tokens(html2, 60, true);
    let both = t2.iter().find(|(t, _)| t.contains("both")).unwrap().1.clone();
    assert!(both == vec![red.clone(), RichAnnotation::BgColour(Colour { r: 0, g: 0, b: 255 })], "colour outermost, background inside: {:?}", both);
    assert!(t2.iter().find(|(t, _)| t.contains("plain")).unwrap().1.is_empty(), "no annotation leaks past its element");
}

/// All routes render at the caller's width, also when a maximum wrap width is configured.
pub(crate) fn m_routes_width() {
    let _which: u8 = kani::any();
    let html: &[u8] = b"<table><tr><td>one two three four five six</td><td>seven eight nine ten eleven</td></tr></table><ul><li>alpha beta gamma delta epsilon zeta eta theta</li></ul><blockquote>quoted words that are long enough to wrap somewhere</blockquote>";
    for &w in &[60usize, 24, 60, 10, 100] {
        let one = crate::config::plain().max_wrap_width(20).string_from_read(html, w);
        let cfg = crate::config::plain().max_wrap_width(20);
        let dom = cfg.parse_html(html).unwrap();
        let tree = cfg.dom_to_render_tree(&dom).unwrap();
        let staged = cfg.render_to_string(tree.clone(), w);
        assert!(one == staged, "staged string route differs at width {}", w);
        let lines = cfg.render_to_lines(tree, w).map(|ls| {
            let mut s = String::new();
            for l in ls {
                for ts in l.tagged_strings() {
                    s.push_str(&ts.s);
                }
                s.push('\n');
            }
            s
        });
        assert!(one == lines, "staged lines route differs at width {}", w);
    }
}

/// Fragment markers of container elements come before the element's content.
pub(crate) fn m_insert_child() {
    let _which: u8 = kani::any();
    let cases: [(&[u8], &str, &str); 6] = [
        (b"<table><tr id=\"k\"><td>first second</td><td>other</td></tr></table>", "#k", "first"),
        (b"<table id=\"k\"><tr><td>first</td></tr></table>", "#k", "first"),
        (b"<div id=\"k\"><p>first</p><p>second</p></div>", "#k", "first"),
        (b"<ul><li id=\"k\">first second</li></ul>", "#k", "first"),
        (b"<blockquote id=\"k\">first second</blockquote>", "#k", "first"),
        (b"<p>zero <em id=\"k\">first</em> last</p>", "#k", "first"),
    ];
    for (html, frag, word) in cases.iter() {
        let toks = rich_tokens(html, 40, false);
        let names: Vec<&str> = toks.iter().map(|(t, _)| t.as_str()).collect();
        let fi = names.iter().position(|t| t == frag).unwrap_or_else(|| panic!("marker {} missing in {:?}", frag, names));
        let wi = names.iter().position(|t| t.contains(word)).expect("word present");
        assert!(fi < wi, "marker {} comes after the element's first word: {:?}", frag, names);
        assert!(names.iter().filter(|t| *t == frag).count() == 1);
    }
}

/// Every element kind keeps all of its children's text, in document order (public API).
pub(crate) fn m_dom_children() {
    let _which: u8 = kani::any();
    let kinds: [(&str, &str); 17] = [
        ("<em>", "</em>"), ("<strong>", "</strong>"), ("<s>", "</s>"), ("<code>", "</code>"), ("<p>", "</p>"),
        ("<ul><li>", "</li></ul>"), ("<sup>", "</sup>"), ("<div>", "</div>"), ("<blockquote>", "</blockquote>"),
        ("<ol><li>", "</li></ol>"), ("<dl><dt>", "</dt></dl>"), ("<dl><dd>", "</dd></dl>"), ("<h2>", "</h2>"),
        ("<span>", "</span>"), ("<a href=\"u\"> ", "</a>"), ("<a href=\"u\">", "<br></a>"), ("<pre>", "</pre>"),
    ];
    for (open, close) in kinds.iter() {
        let html = format!("{}<b>tokone</b> toktwo <i>tokthree</i>{}", open, close);
        let out = crate::config::with_decorator(TrivialDecorator::new())
            .string_from_read(html.as_bytes(), 80)
            .expect("renders")
            .replace('\u{336}', "");
        let p1 = out.find("tokone").unwrap_or_else(|| panic!("first child lost in {}: {:?}", open, out));
        let p2 = out.find("toktwo").unwrap_or_else(|| panic!("second child lost in {}: {:?}", open, out));
        let p3 = out.find("tokthree").unwrap_or_else(|| panic!("third child lost in {}: {:?}", open, out));
        assert!(p1 < p2 && p2 < p3, "children reordered in {}: {:?}", open, out);
        assert!(out.matches("tokone").count() == 1 && out.matches("tokthree").count() == 1, "child duplicated in {}", open);
    }
}

/// Strikeout affixes of a custom decorator appear verbatim (not struck through) on both sides.
pub(crate) fn m_strike_affix() {
    let _which: u8 = kani::any();
    let dec = KDec::plain_like();
    let out = crate::config::with_decorator(dec).string_from_read(&b"<p>x <s>ab</s> y</p>"[..], 40).expect("renders");
    assert!(out.contains("~~a\u{336}b\u{336}~~"), "strikeout affixes altered: {:?}", out);
}

/// Ids on nested blocks without text in between all yield their fragment marker.
pub(crate) fn m_frag_nested() {
    let _which: u8 = kani::any();
    let html: &[u8] = b"<div id=\"a\"><div id=\"b\"><p id=\"c\">text</p></div></div><blockquote id=\"q\"><div id=\"d\"><p>deep</p></div></blockquote>";
    let toks = rich_tokens(html, 40, false);
    let names: Vec<&str> = toks.iter().map(|(t, _)| t.as_str()).collect();
    for f in ["#a", "#b", "#c", "#q", "#d"] {
        assert!(names.iter().filter(|t| **t == f).count() == 1, "marker {} missing or duplicated: {:?}", f, names);
    }
    let pos = |w: &str| names.iter().position(|t| *t == w).unwrap();
    assert!(pos("#a") < pos("text") && pos("#c") < pos("text") && pos("#q") < pos("deep"));
}

/// Link references are numbered 1..n in document order across containers; the footnote list follows; nothing when disabled.
pub(crate) fn m_link_footnotes() {
    let _which: u8 = kani::any();
    let html: &[u8] = b"<p><a href=\"u1\">one</a></p><ul><li><a href=\"u2\">two</a></li></ul><blockquote><a href=\"u3\">three</a></blockquote><table><tr><td><a href=\"u4\">four</a></td><td><a href=\"u5\">five</a></td></tr></table><h2><a href=\"u6\">six</a></h2>";
    let on = crate::config::plain().link_footnotes(true).string_from_read(html, 80).expect("renders");
    let mut last = 0usize;
    for (k, w) in ["one", "two", "three", "four", "five", "six"].iter().enumerate() {
        let marker = format!("{}][{}]", w, k + 1);
        let at = on.find(&marker);
        assert!(at.is_some(), "reference {:?} missing in {:?}", marker, on);
        assert!(at.unwrap() >= last, "references out of order in {:?}", on);
        last = at.unwrap();
        let entry = format!("[{}]: u{}", k + 1, k + 1);
        assert!(on.matches(&entry).count() == 1, "footnote {:?} missing or duplicated in {:?}", entry, on);
        assert!(on.find(&entry).unwrap() > on.find("six][6]").unwrap_or(0));
    }
    let off = crate::config::plain().link_footnotes(false).string_from_read(html, 80).expect("renders");
    assert!(!off.contains("][") && !off.contains("]: "), "references although disabled: {:?}", off);
    // every link is recorded, also when neighbouring links share a target
    let dup: &[u8] = b"<p><a href=\"same\">aa</a> <a href=\"same\">bb</a> <a href=\"other\">cc</a> <a href=\"same\">dd</a></p>";
    let out = crate::config::plain().link_footnotes(true).string_from_read(dup, 80).expect("renders");
    for (k, w) in ["aa", "bb", "cc", "dd"].iter().enumerate() {
        let marker = format!("{}][{}]", w, k + 1);
        assert!(out.contains(&marker), "reference {:?} missing in {:?}", marker, out);
    }
    assert!(out.contains("[1]: same") && out.contains("[2]: same") && out.contains("[3]: other") && out.contains("[4]: same"),
            "footnote list does not have one entry per link: {:?}", out);
}

/// Links whose content sits in a transparent container keep their text; links without content leave no reference.
pub(crate) fn m_shallow_empty() {
    let _which: u8 = kani::any();
    let html: &[u8] = b"<p>x <a href=\"u1\"><span><em>aa</em> <em>bb</em></span></a> y <a href=\"u2\"></a> <a href=\"u3\"><span></span></a> z</p>";
    let out = crate::config::plain().link_footnotes(true).string_from_read(html, 80).expect("renders");
    assert!(out.contains("aa") && out.contains("bb"), "link text lost: {:?}", out);
    assert!(out.contains("[1]: u1"), "footnote of the link with content missing: {:?}", out);
    assert!(!out.contains("u2") && !out.contains("u3"), "an empty link left a footnote: {:?}", out);
    // text that is only whitespace is no content either
    let ws: &[u8] = b"<p>x <a href=\"w1\"> </a> y <a href=\"w2\">\n</a> <a href=\"w3\">real</a></p>";
    let out = crate::config::plain().link_footnotes(true).string_from_read(ws, 80).expect("renders");
    assert!(!out.contains("w1") && !out.contains("w2"), "a whitespace-only link left a footnote: {:?}", out);
    assert!(out.contains("real][1]") && out.contains("[1]: w3"), "numbering disturbed by empty links: {:?}", out);
}

/// Every line of a prefixed block carries the prefix, including blank lines between its paragraphs.
pub(crate) fn m_prefix_blank_lines() {
    let _which: u8 = kani::any();
    let html: &[u8] = b"<blockquote><p>first para</p><p>second para</p></blockquote>";
    let out = crate::config::plain().string_from_read(html, 40).expect("renders");
    let lines: Vec<&str> = out.lines().collect();
    assert!(lines.len() >= 3, "expected a separator line: {:?}", out);
    for l in &lines {
        assert!(l.starts_with("> ") || *l == ">", "line without quote prefix {:?} in {:?}", l, out);
    }
    let html2: &[u8] = b"<ul><li><p>aa</p><p>bb</p></li></ul>";
    let out2 = crate::config::plain().string_from_read(html2, 40).expect("renders");
    for (i, l) in out2.lines().enumerate() {
        let want = if i == 0 { "* " } else { "  " };
        assert!(l.starts_with(want) || l.trim_end() == want.trim_end(), "list line {} without its indent {:?} in {:?}", i, l, out2);
    }
}

/// Box-drawing picture of bordered (nested) tables: all lines equally wide, and every rule glyph
/// agrees with the vertical bars directly above and below it.
pub(crate) fn m_columns() {
    let _which: u8 = kani::any();
    fn up(c: char) -> bool { matches!(c, '\u{2502}' | '\u{2534}' | '\u{253c}') }
    fn down(c: char) -> bool { matches!(c, '\u{2502}' | '\u{252c}' | '\u{253c}') }
    fn rule(l: &[char]) -> bool { !l.is_empty() && l.iter().all(|c| matches!(c, '\u{2500}' | '\u{252c}' | '\u{2534}' | '\u{253c}')) }
    let docs: [&str; 5] = [
        "<table><tr><td>ab</td><td><table><tr><td>1</td><td>2</td></tr></table></td></tr><tr><td>cd</td><td>wxyz</td></tr></table>",
        "<table><tr><td><table><tr><td>1</td><td>2</td></tr></table></td><td>ab</td></tr><tr><td>wxyz</td><td>cd</td></tr></table>",
        "<table><tr><td>a</td><td>bb</td><td>ccc</td></tr><tr><td>dddd</td><td>e</td><td>ff</td></tr></table>",
        "<table><tr><td>x</td><td><table><tr><td>1</td><td>2</td></tr><tr><td>3</td><td>4</td></tr></table></td><td>y<br>z<br>w<br>v<br>u</td></tr></table>",
        "<table><tr><td>one two three</td><td>four</td></tr><tr><td>five</td><td>six seven eight nine</td></tr></table>",
    ];
    for html in docs.iter() {
        for width in [20usize, 31, 50] {
            let out = crate::config::plain().string_from_read(html.as_bytes(), width).expect("renders");
            let lines: Vec<Vec<char>> = out.lines().map(|l| l.chars().collect()).collect();
            assert!(!lines.is_empty(), "empty rendering of {:?}", html);
            let w = lines[0].len();
            for l in lines.iter() {
                assert!(l.len() == w, "lines of different width at width {}:\n{}", width, out);
            }
            for r in 0..lines.len() {
                if !rule(&lines[r]) {
                    continue;
                }
                for x in 0..w {
                    let above = r > 0 && down(lines[r - 1][x]);
                    let below = r + 1 < lines.len() && up(lines[r + 1][x]);
                    let g = lines[r][x];
                    assert!((up(g), down(g)) == (above, below), "rule line {} col {}: glyph {:?} does not match the bars above/below at width {}:\n{}", r, x, g, width, out);
                }
            }
        }
    }
}

/// A parsed DOM can be turned into a render tree and rendered any number of times with the same result.
pub(crate) fn m_dom_reuse() {
    let _which: u8 = kani::any();
    let html: &[u8] = b"<h1>Title</h1><p>Some paragraph text that wraps at narrow widths.</p><!-- note --><ul><li>first item</li><li>second item</li></ul><table><tr><td>alpha</td><td>beta</td></tr></table>";
    let cfg = crate::config::plain();
    let dom = cfg.parse_html(html).unwrap();
    for &w in &[40usize, 12, 40, 80] {
        let expected = crate::config::plain().string_from_read(html, w);
        let tree = cfg.dom_to_render_tree(&dom).unwrap();
        let got = cfg.render_to_string(tree.clone(), w);
        assert!(got == expected, "second use of the parsed document differs at width {}: {:?} vs {:?}", w, got, expected);
        let again = cfg.render_to_string(tree, w);
        assert!(again == expected, "re-rendering the tree differs at width {}", w);
    }
}

/// A fragment marker inside a word that has to be hard-wrapped is still emitted (once).
pub(crate) fn m_frag_in_word() {
    let _which: u8 = kani::any();
    let html: &[u8] = b"<p>aaaaaaaaaaaaaaaaaaaa<span id=\"mid\">bbbbbbbbbbbbbbbbbbbb</span> tail</p>";
    for width in [10usize, 15, 50] {
        let toks = rich_tokens(html, width, false);
        let n = toks.iter().filter(|(t, _)| t == "#mid").count();
        assert!(n == 1, "fragment marker emitted {} times at width {}: {:?}", n, width, toks.iter().map(|(t, _)| t.as_str()).collect::<Vec<_>>());
    }
}

/// Absurd colspan values are handled like any other: no panic, and the cells' text is rendered.
pub(crate) fn m_colspan_huge() {
    let _which: u8 = kani::any();
    let html: &[u8] = b"<table><tr><td colspan=\"18446744073709551615\">aa</td><td colspan=\"18446744073709551615\">bb</td></tr><tr><td>cc</td><td>dd</td></tr></table>";
    for width in [10usize, 40] {
        let out = crate::config::plain().string_from_read(html, width).expect("renders");
        for w in ["aa", "bb", "cc", "dd"] {
            assert!(out.contains(w), "{} missing at width {}: {:?}", w, width, out);
        }
    }
    let html2: &[u8] = b"<table><tr><td colspan=\"9223372036854775808\">x</td><td colspan=\"9223372036854775808\">y</td><td colspan=\"3\">z</td></tr></table>";
    let _ = crate::config::plain().string_from_read(html2, 20);
}

/// Text carries the annotations current where it occurs; preformatted text is marked first / continuation;
/// whitespace between blocks is dropped (public API, rich decorator).
pub(crate) fn m_inline_tags() {
    let _which: u8 = kani::any();
    let a = crate::config::plain().string_from_read(&b"<div><p>one</p> \n <p>two</p></div>"[..], 40).expect("renders");
    let b = crate::config::plain().string_from_read(&b"<div><p>one</p><p>two</p></div>"[..], 40).expect("renders");
    assert!(a == b, "whitespace between blocks changes the result: {:?} vs {:?}", a, b);
    // every kind of collapsible whitespace between blocks is ignored alike (tab, CR, form feed, no-break space excluded)
    for ws in ["\t", "\n\t", " \t ", "\r\n", "\x0c", "\n\t\t\n"] {
        for (open, close) in [("<p>", "</p>"), ("<h2>", "</h2>"), ("<blockquote>", "</blockquote>"), ("<ul><li>", "</li></ul>")] {
            let with = format!("<div>{}one{}{}<p>two</p></div>", open, close, ws);
            let without = format!("<div>{}one{}<p>two</p></div>", open, close);
            let a = crate::config::plain().string_from_read(with.as_bytes(), 40).expect("renders");
            let b = crate::config::plain().string_from_read(without.as_bytes(), 40).expect("renders");
            assert!(a == b, "whitespace {:?} after {} changes the result: {:?} vs {:?}", ws, open, a, b);
        }
    }
    let toks = rich_tokens(b"<p>plain <em>emph <strong>both</strong></em> tail</p><pre>abcdefghijklmnopqrstuvwxyz <em>zz</em></pre>", 12, false);
    let find = |w: &str| toks.iter().find(|(t, _)| t.contains(w)).map(|(_, a)| a.clone()).unwrap_or_default();
    assert!(find("plain").is_empty(), "plain text is annotated: {:?}", find("plain"));
    assert!(find("emph") == vec![RichAnnotation::Emphasis], "emphasis annotation wrong: {:?}", find("emph"));
    assert!(find("both") == vec![RichAnnotation::Emphasis, RichAnnotation::Strong], "nested annotation wrong: {:?}", find("both"));
    assert!(find("tail").is_empty(), "annotation leaked: {:?}", find("tail"));
    assert!(find("abcdefghijkl") == vec![RichAnnotation::Preformat(false)], "first piece of a <pre> line: {:?}", find("abcdefghijkl"));
    assert!(find("mnopqrstuvwx") == vec![RichAnnotation::Preformat(true)], "continuation of a <pre> line: {:?}", find("mnopqrstuvwx"));
    assert!(find("zz") == vec![RichAnnotation::Emphasis, RichAnnotation::Preformat(true)], "emphasis inside a continued <pre> line: {:?}", find("zz"));
}

/// The rows of every section of a table (thead, tbody, tfoot) are rendered, in document order.
pub(crate) fn m_table_sections() {
    let _which: u8 = kani::any();
    let html: &[u8] = b"<table><thead><tr><td>headcell</td></tr></thead><tbody><tr><td>bodycell</td></tr></tbody><tfoot><tr><td>footcell</td></tr></tfoot></table>";
    let out = crate::config::plain().string_from_read(html, 40).expect("renders");
    let p = |w: &str| out.find(w);
    assert!(p("headcell").is_some() && p("bodycell").is_some() && p("footcell").is_some(), "a table section is missing: {:?}", out);
    assert!(p("headcell") < p("bodycell") && p("bodycell") < p("footcell"), "table sections out of order: {:?}", out);
}

/// A table's caption is part of the document text (demonstrates the recorded known finding).
pub(crate) fn m_table_caption() {
    let _which: u8 = kani::any();
    let html: &[u8] = b"<table><caption>captiontext</caption><tr><td>cell</td></tr></table>";
    let out = crate::config::plain().string_from_read(html, 40).expect("renders");
    assert!(out.contains("cell"), "cell missing: {:?}", out);
    assert!(out.contains("captiontext"), "the caption's text is dropped: {:?}", out);
}

/// Minimum widths: a link reserves max(children, 5) columns, so with overflow allowed a quoted / listed link is
/// laid out within max(width, prefixes + 5), and without overflow it renders from that width on.
pub(crate) fn m_link_min_width() {
    let _which: u8 = kani::any();
    let cases: [(&[u8], usize); 2] = [
        (b"<blockquote><a href=\"http://example.com/\">aaa bbb ccc ddd eee</a></blockquote>", 2),
        (b"<ul><li><blockquote><a href=\"http://example.com/\">aaa bbb ccc ddd eee</a></blockquote></li></ul>", 4),
    ];
    for (html, prefixes) in cases.iter() {
        for width in 1..=12usize {
            let s = crate::config::plain().allow_width_overflow().string_from_read(*html, width).expect("overflow allowed: must render");
            let bound = width.max(prefixes + 5);
            for l in s.lines() {
                assert!(UnicodeWidthStr::width(l) <= bound, "width {}: line {:?} wider than {}", width, l, bound);
            }
        }
        for width in (prefixes + 5)..=(prefixes + 8) {
            let r = crate::config::plain().string_from_read(*html, width);
            assert!(r.is_ok(), "does not render at width {} although prefixes + 5 columns are available", width);
        }
    }
}


/// The element-name dispatch of process_dom_node: every element with an arm of its own is converted to the node
/// kind the documentation of the render tree says, everything else is a transparent container.  Also validates
/// the atom encoding the solver-side table relies on.  atom == 0: all names (self test).
pub(crate) fn m_element_dispatch() {
    let atom: u64 = kani::any();
    // name -> (document, expectation)
    enum Want { Parent(&'static str), Has(&'static str), Absent, Same(&'static str), Table }
    use Want::*;
    let table: Vec<(&str, String, Want)> = vec![
        ("html", "<html><body>zzq</body></html>".into(), Parent("Container(")),
        ("body", "<html><body>zzq</body></html>".into(), Parent("Container(")),
        ("head", "<html><head><title>zzq</title></head><body>x</body></html>".into(), Absent),
        ("script", "<div><script>zzq</script>x</div>".into(), Absent),
        ("style", "<div><style>zzq</style>x</div>".into(), Absent),
        ("link", "<div>zzq<link></div>".into(), Same("<div>zzq</div>")),
        ("meta", "<div>zzq<meta></div>".into(), Same("<div>zzq</div>")),
        ("hr", "<div>zzq<hr></div>".into(), Same("<div>zzq</div>")),
        ("img", "<div>zzq<img></div>".into(), Same("<div>zzq</div>")),
        ("span", "<div><span>zzq</span></div>".into(), Parent("Container(")),
        ("a", "<div><a>zzq</a></div>".into(), Parent("Container(")),
        ("em", "<div><em>zzq</em></div>".into(), Parent("Em(")),
        ("i", "<div><i>zzq</i></div>".into(), Parent("Em(")),
        ("ins", "<div><ins>zzq</ins></div>".into(), Parent("Em(")),
        ("strong", "<div><strong>zzq</strong></div>".into(), Parent("Strong(")),
        ("s", "<div><s>zzq</s></div>".into(), Parent("Strikeout(")),
        ("del", "<div><del>zzq</del></div>".into(), Parent("Strikeout(")),
        ("code", "<div><code>zzq</code></div>".into(), Parent("Code(")),
        ("h1", "<h1>zzq</h1>".into(), Parent("Header(1, ")), ("h2", "<h2>zzq</h2>".into(), Parent("Header(2, ")),
        ("h3", "<h3>zzq</h3>".into(), Parent("Header(3, ")), ("h4", "<h4>zzq</h4>".into(), Parent("Header(4, ")),
        ("h5", "<h5>zzq</h5>".into(), Parent("Header(5, ")), ("h6", "<h6>zzq</h6>".into(), Parent("Header(6, ")),
        ("p", "<p>zzq</p>".into(), Parent("Block(")),
        ("pre", "<pre>zzq</pre>".into(), Parent("Block(")),
        ("li", "<ul><li>zzq</li></ul>".into(), Parent("ListItem(")),
        ("sup", "<div><sup>zzq</sup></div>".into(), Parent("Sup(")),
        ("div", "<div>zzq</div>".into(), Parent("Div(")),
        ("br", "<div>zzq<br>x</div>".into(), Has("Break")),
        ("table", "<table><tr><td>zzq</td></tr></table>".into(), Table),
        ("thead", "<table><thead><tr><td>zzq</td></tr></thead></table>".into(), Table),
        ("tbody", "<table><tbody><tr><td>zzq</td></tr></tbody></table>".into(), Table),
        ("tfoot", "<table><tfoot><tr><td>zzq</td></tr></tfoot></table>".into(), Table),
        ("tr", "<table><tr><td>zzq</td></tr></table>".into(), Table),
        ("td", "<table><tr><td>zzq</td></tr></table>".into(), Table),
        ("th", "<table><tr><th>zzq</th></tr></table>".into(), Table),
        ("ul", "<ul><li>zzq</li></ul>".into(), Has("Ul(")),
        ("ol", "<ol><li>zzq</li></ol>".into(), Has("Ol(")),
        ("dl", "<dl><dt>zzq</dt></dl>".into(), Has("Dl(")),
        ("dt", "<dl><dt>zzq</dt></dl>".into(), Parent("Dt(")),
        ("dd", "<dl><dd>zzq</dd></dl>".into(), Parent("Dd(")),
        ("b", "<div><b>zzq</b></div>".into(), Parent("Container(")),
        ("u", "<div><u>zzq</u></div>".into(), Parent("Container(")),
        ("font", "<div><font>zzq</font></div>".into(), Parent("Container(")),
        ("center", "<center>zzq</center>".into(), Parent("Container(")),
        ("section", "<section>zzq</section>".into(), Parent("Container(")),
        ("caption", "<table><caption>zzq</caption><tr><td>x</td></tr></table>".into(), Parent("Container(")),
        ("label", "<div><label>zzq</label></div>".into(), Parent("Container(")),
        ("small", "<div><small>zzq</small></div>".into(), Parent("Container(")),
        ("q", "<div><q>zzq</q></div>".into(), Parent("Container(")),
    ];
    // a broken *assumption of the check* (atom encoding of this string_cache / markup5ever version) is not a violation of
    // the property: leave with a status the driver does not count as a reproduction (the check then answers exit 2)
    if html5ever::ns!(html).unsafe_data() != 2 {
        eprintln!("VERIF-REPLAY: the XHTML namespace atom is not static atom 0: the encoding assumed by element_dispatch does not hold");
        std::process::exit(4);
    }
    let tokens = ["Container(", "Link(", "Em(", "Strong(", "Strikeout(", "Code(", "Block(", "Header(", "Div(", "BlockQuote(",
                  "Ul(", "Ol(", "Dl(", "Dt(", "Dd(", "ListItem(", "Sup(", "TableCell(", "TableBody(", "TableRow(", "Table(", "RenderTableCell {"];
    let tree_of = |html: &str| -> String {
        let cfg = crate::config::plain();
        let dom = cfg.parse_html(html.as_bytes()).expect("parses");
        let tree = cfg.dom_to_render_tree(&dom).expect("tree");
        format!("{:?}", tree)
    };
    let mut checked = 0;
    for (name, html, want) in table.iter() {
        let packed = html5ever::LocalName::from(*name).unsafe_data();
        let mut enc: u64 = 1 | ((name.len() as u64) << 4);
        for (i, b) in name.bytes().enumerate() { enc |= (b as u64) << (8 * (i + 1)); }
        if packed != enc {
            eprintln!("VERIF-REPLAY: <{}> is not packed as an inline atom ({:#x} vs {:#x}): the encoding assumed by element_dispatch does not hold", name, packed, enc);
            std::process::exit(4);
        }
        if atom != 0 && atom != enc { continue; }
        checked += 1;
        let dbg = tree_of(html);
        match want {
            Absent => assert!(!dbg.contains("zzq"), "<{}>: its content is in the render tree", name),
            Same(other) => assert!(dbg == tree_of(other), "<{}> contributes to the render tree", name),
            Has(tok) => assert!(dbg.contains(tok) && dbg.contains("zzq"), "<{}>: no {} node", name, tok),
            Parent(tok) => {
                let idx = dbg.find("zzq").unwrap_or_else(|| panic!("<{}>: text lost", name));
                let pre = &dbg[..idx];
                let last = tokens.iter().filter_map(|t| pre.rfind(t).map(|p| (p, *t))).max().map(|(p, _)| &pre[p..]).unwrap_or("");
                assert!(last.starts_with(tok), "<{}>: its text is a child of `{}`, not of {}", name, &last[..last.len().min(24)], tok);
            }
            Table => {
                let idx = dbg.find("zzq").unwrap_or_else(|| panic!("<{}>: text lost", name));
                let pre = &dbg[..idx];
                let last = tokens.iter().filter_map(|t| pre.rfind(t).map(|p| (p, *t))).max().map(|(_, t)| t).unwrap_or("");
                assert!(pre.contains("Table(") && last == "RenderTableCell {", "<{}>: the cell is not part of the table", name);
                assert!(!dbg.contains("TableRow(") && !dbg.contains("TableBody(") && !dbg.contains("TableCell("), "<{}>: a table part stays outside the table", name);
            }
        }
    }
    assert!(checked > 0, "atom {:#x} names no element of the table", atom);
}

/// Unicode strikeout only adds U+0336 marks: with the marks removed the output equals the output without the option.
pub(crate) fn m_strike_layout() {
    let _which: u8 = kani::any();
    let docs: [&str; 7] = [
        "<p>x <s>ab cd</s> y</p>",
        "<s><div>a</div>  <div>b</div></s>",
        "<s>a <div>b</div> c</s>",
        "<del><p>one two</p> <p>three</p></del>",
        "<p><s>aaa bbb ccc ddd</s></p>",
        "<s><ul><li>a b</li> <li>c</li></ul></s>",
        "<p><s>a&nbsp;b\tc</s></p>",
    ];
    for html in docs.iter() {
        for width in [3usize, 5, 8, 20] {
            let on = crate::config::plain().unicode_strikeout(true).string_from_read(html.as_bytes(), width);
            let off = crate::config::plain().unicode_strikeout(false).string_from_read(html.as_bytes(), width);
            match (on, off) {
                (Ok(on), Ok(off)) => assert!(on.replace('\u{336}', "") == off, "{} at width {}: strikeout changes the layout: {:?} vs {:?}", html, width, on, off),
                (Err(_), Err(_)) => (),
                _ => panic!("{} at width {}: strikeout changes whether the document renders", html, width),
            }
        }
    }
}

/// The footnote list has exactly one entry per reference, `[k]: target`, also for empty and repeated targets.
pub(crate) fn m_footnote_list() {
    let _which: u8 = kani::any();
    let cases: [(&str, &[&str]); 4] = [
        ("<p><a href=\"http://a/\">alpha</a> <a href=\"\">bravo</a> <a href=\"http://c/\">charlie</a></p>", &["http://a/", "", "http://c/"]),
        ("<p><a href=\"\">only</a></p>", &[""]),
        ("<ul><li><a href=\"x\">one</a></li><li><a href=\"x\">two</a></li></ul><p><a href=\" \">three</a></p>", &["x", "x", " "]),
        ("<p>no links</p>", &[]),
    ];
    for (html, targets) in cases.iter() {
        let out = crate::config::plain().link_footnotes(true).string_from_read(html.as_bytes(), 60).expect("renders");
        let entries: Vec<&str> = out.lines().filter(|l| l.starts_with('[') && l.contains("]: ") || l.ends_with("]:")).collect();
        assert!(entries.len() == targets.len(), "{}: {} footnote lines for {} links: {:?}", html, entries.len(), targets.len(), out);
        for (k, t) in targets.iter().enumerate() {
            let want = format!("[{}]: {}", k + 1, t);
            assert!(entries[k].trim_end() == want.trim_end(), "{}: footnote {} is {:?}, not {:?}", html, k + 1, entries[k], want);
            assert!(out.contains(&format!("][{}]", k + 1)), "{}: reference [{}] missing: {:?}", html, k + 1, out);
        }
        let off = crate::config::plain().link_footnotes(false).string_from_read(html.as_bytes(), 60).expect("renders");
        assert!(!off.contains("]: ") && !off.contains("]["), "{}: footnotes although disabled: {:?}", html, off);
    }
}

/// A colour set on a block element ends with the element, whatever kind of block it is.
pub(crate) fn m_block_colour_leak() {
    let _which: u8 = kani::any();
    let blocks: [(&str, &str); 12] = [
        ("<blockquote style=\"color:#ff0000\">", "</blockquote>"), ("<dl><dd style=\"color:#ff0000\">", "</dd></dl>"),
        ("<dl><dt style=\"color:#ff0000\">", "</dt></dl>"), ("<dl style=\"color:#ff0000\"><dt>", "</dt></dl>"),
        ("<ul style=\"color:#ff0000\"><li>", "</li></ul>"), ("<ul><li style=\"color:#ff0000\">", "</li></ul>"),
        ("<ol style=\"color:#ff0000\"><li>", "</li></ol>"), ("<ol><li style=\"color:#ff0000\">", "</li></ol>"),
        ("<h2 style=\"color:#ff0000\">", "</h2>"), ("<div style=\"color:#ff0000\">", "</div>"),
        ("<p style=\"color:#ff0000\">", "</p>"), ("<pre style=\"color:#ff0000\">", "</pre>"),
    ];
    let red = RichAnnotation::Colour(Colour { r: 255, g: 0, b: 0 });
    let blue = RichAnnotation::Colour(Colour { r: 0, g: 0, b: 255 });
    for (open, close) in blocks.iter() {
        let html = format!("<div style=\"color:#0000ff\"><p>before</p>{}inside{}<p>after</p></div><p>outside</p>", open, close);
        let toks = rich_tokens(html.as_bytes(), 60, true);
        let find = |w: &str| toks.iter().find(|(t, _)| t.contains(w)).map(|(_, a)| a.clone()).unwrap_or_else(|| panic!("{}: token {} missing", open, w));
        let colours = |w: &str| -> Vec<RichAnnotation> { find(w).into_iter().filter(|a| matches!(a, RichAnnotation::Colour(_))).collect() };
        assert!(colours("inside") == vec![blue.clone(), red.clone()], "{}: the element's colour nests inside the enclosing one: {:?}", open, colours("inside"));
        assert!(colours("after") == vec![blue.clone()], "{}: text after the element: {:?}", open, colours("after"));
        assert!(colours("before") == vec![blue.clone()], "{}: text before the element: {:?}", open, colours("before"));
        assert!(colours("outside").is_empty(), "{}: a colour leaks past the enclosing element: {:?}", open, colours("outside"));
    }
}

/// Selectors whose subject compound has no element name match through child combinators.
pub(crate) fn m_selector_entry() {
    let _which: u8 = kani::any();
    let red = RichAnnotation::Colour(Colour { r: 255, g: 0, b: 0 });
    // (selector, word that must be red, word that must not be)
    let cases: [(&str, &str, &str); 8] = [
        ("p > .x", "wone", "wtwo"), ("div > p > .x", "wone", "wtwo"), ("p > #e", "wthree", "wone"), ("p > *", "wone", "wfive"),
        ("#top .x", "wone", "wthree"), ("p.c > span", "wone", "wfive"), (".x", "wtwo", "wthree"), ("div > p > span > .x", "wsix", "wone"),
    ];
    for (sel, yes, no) in cases.iter() {
        let html = format!("<style>{} {{ color: #ff0000 }}</style><div id=\"top\"><p class=\"c\"><span class=\"x\">wone</span> <i id=\"e\">wthree</i> <span><b class=\"x\">wsix</b></span></p><b class=\"x\">wtwo</b> wfive</div>", sel);
        let toks = rich_tokens(html.as_bytes(), 80, true);
        let find = |w: &str| toks.iter().find(|(t, _)| t.contains(w)).map(|(_, a)| a.clone()).unwrap_or_else(|| panic!("{}: token {} missing", sel, w));
        if *sel == ".x" {
            assert!(find("wone").contains(&red) && find("wtwo").contains(&red) && find("wsix").contains(&red), "{}: not applied everywhere", sel);
            assert!(!find(no).contains(&red), "{}: applied to {}", sel, no);
            continue;
        }
        assert!(find(yes).contains(&red), "selector `{}` does not match {}: {:?}", sel, yes, find(yes));
        if !(*sel == "p > *" ) { assert!(!find(no).contains(&red), "selector `{}` matches {}", sel, no); }
    }
}

/// An id changes nothing but the markers: the text lines with and without it are the same, also under max_wrap_width.
pub(crate) fn m_frag_layout() {
    let _which: u8 = kani::any();
    let docs: [(&str, &str); 4] = [
        ("<p id=\"x\">aaa bbb ccc ddd eee fff</p>", "<p>aaa bbb ccc ddd eee fff</p>"),
        ("<div id=\"x\">aaa bbb ccc ddd eee fff</div><p>tail</p>", "<div>aaa bbb ccc ddd eee fff</div><p>tail</p>"),
        ("<ul><li id=\"x\">aaa bbb ccc ddd eee fff</li></ul>", "<ul><li>aaa bbb ccc ddd eee fff</li></ul>"),
        ("<p>zz <a name=\"x\"></a><span id=\"y\">aaa bbb ccc</span> ddd eee fff</p>", "<p>zz <a></a><span>aaa bbb ccc</span> ddd eee fff</p>"),
    ];
    for (with, without) in docs.iter() {
        for (mw, width) in [(10usize, 40usize), (7, 12), (100, 9), (3, 30)] {
            let a = crate::config::plain().max_wrap_width(mw).string_from_read(with.as_bytes(), width);
            let b = crate::config::plain().max_wrap_width(mw).string_from_read(without.as_bytes(), width);
            assert!(a == b, "{} at width {} (max {}): the id changes the text: {:?} vs {:?}", with, width, mw, a, b);
        }
    }
}

/// <sup> keeps all its children; only a lone run of digits is replaced by superscript characters.
pub(crate) fn m_sup_children() {
    let _which: u8 = kani::any();
    let r = |h: &str| crate::config::plain().string_from_read(h.as_bytes(), 40).expect("renders");
    assert!(r("<p>x<sup>12</sup></p>").contains("x\u{b9}\u{b2}"), "digits shortcut");
    let out = r("<p>the 2<sup>1<em>st</em></sup> of May</p>");
    assert!(out.contains("st"), "a child of <sup> is lost: {:?}", out);
    let out = r("<p>x<sup>1<!-- c -->2</sup> y</p>");
    assert!(out.matches('2').count() + out.matches('\u{b2}').count() == 1, "second text child of <sup> lost or duplicated: {:?}", out);
    let out = r("<p>a<sup><b>7</b>zz<i>8</i></sup></p>");
    assert!(out.contains("7") && out.contains("zz") && out.contains("8"), "children of <sup> lost: {:?}", out);
}

/// Every <style> element counts, also after one that does not parse.
pub(crate) fn m_style_elements() {
    let _which: u8 = kani::any();
    let docs: [&str; 3] = [
        "<style>p{color:#00f} a:hover{color:#f00}</style><style>.hide{display:none}</style><p>shown</p><p class=\"hide\">hidden</p>",
        "<style>.hide{display:none}</style><style>}} garbage {{</style><p>shown</p><p class=\"hide\">hidden</p>",
        "<style>@@@</style><style>???</style><style>.hide{display:none}</style><p>shown</p><div class=\"hide\"><p>hidden</p></div>",
    ];
    for html in docs.iter() {
        let out = crate::config::plain().use_doc_css().string_from_read(html.as_bytes(), 40).expect("renders");
        assert!(out.contains("shown") && !out.contains("hidden"), "{}: {:?}", html, out);
    }
}

/// Definitions, quotes and list items with very narrow content render with every decorator (the estimate contains
/// the prefix the block is rendered with).
pub(crate) fn m_prefix_estimate() {
    let _which: u8 = kani::any();
    let docs: [(&str, &str); 4] = [
        ("<dl><dt>T</dt><dd>x</dd></dl>", "T\n  x\n"), ("<dl><dt>T</dt><dd></dd></dl>", "T\n"),
        ("<dl><dd>x</dd><dd>yy</dd></dl>", "  x\n  yy\n"), ("<dl><dt>T</dt><dd><p>a</p><p>b</p></dd></dl>", "T\n  a\n  \n  b\n"),
    ];
    for (html, want) in docs.iter() {
        for width in [4usize, 5, 8, 20] {
            let t = crate::config::with_decorator(TrivialDecorator::new()).string_from_read(html.as_bytes(), width);
            assert!(t.is_ok(), "{} at width {} with the trivial decorator: {:?}", html, width, t);
            assert!(t.as_ref().unwrap() == want, "{} at width {}: {:?}", html, width, t);
            let p = crate::config::plain().string_from_read(html.as_bytes(), width);
            assert!(p.is_ok(), "{} at width {} with the plain decorator: {:?}", html, width, p);
        }
    }
    for html in ["<blockquote>x</blockquote>", "<ul><li>x</li></ul>"] {
        for width in [3usize, 4, 8] {
            let t = crate::config::with_decorator(TrivialDecorator::new()).string_from_read(html.as_bytes(), width);
            assert!(t.is_ok() && t.as_ref().unwrap().contains('x'), "{} at width {}: {:?}", html, width, t);
        }
    }
}

/// An id yields its marker whatever its element converts to: nothing (hr), a finished node (br), pending children,
/// or an element that builds nothing (empty div); the marker comes before the element's own text.
pub(crate) fn m_frag_from_id() {
    let _which: u8 = kani::any();
    let html: &[u8] = b"<p>one</p><hr id=\"h\"><p>two<br id=\"b\">three <em id=\"e\">four</em></p><div id=\"d\"></div><p>five <span id=\"s\"></span>six</p><a name=\"n\">seven</a>";
    let toks = rich_tokens(html, 40, false);
    let names: Vec<&str> = toks.iter().map(|(t, _)| t.as_str()).collect();
    for f in ["#h", "#b", "#e", "#d", "#s", "#n"] {
        assert!(names.iter().filter(|t| **t == f).count() == 1, "marker {} missing or duplicated: {:?}", f, names);
    }
    let pos = |w: &str| names.iter().position(|t| t.contains(w)).unwrap_or_else(|| panic!("{} missing: {:?}", w, names));
    assert!(pos("one") < pos("#h") && pos("#h") < pos("two"), "#h misplaced: {:?}", names);
    assert!(pos("two") < pos("#b") && pos("#b") < pos("three"), "#b misplaced: {:?}", names);
    assert!(pos("three") < pos("#e") && pos("#e") < pos("four"), "#e misplaced: {:?}", names);
    assert!(pos("four") < pos("#d") && pos("#d") < pos("five"), "#d misplaced: {:?}", names);
    assert!(pos("five") < pos("#s") && pos("#s") < pos("six"), "#s misplaced: {:?}", names);
    assert!(pos("six") < pos("#n") && pos("#n") < pos("seven"), "#n misplaced: {:?}", names);
}

/// The lines route and the string route give the same lines, also when a marker is still waiting at the end.
pub(crate) fn m_routes_lines() {
    let _which: u8 = kani::any();
    let docs: [&str; 5] = [
        "<p>Hi <a id=\"e\"></a></p>", "<p>Hi</p><div id=\"d\"></div>", "<p>one <span id=\"s\"></span></p><p>two</p>",
        "<ul><li>x <a name=\"n\"></a></li></ul>", "<p>plain</p>",
    ];
    for html in docs.iter() {
        for width in [5usize, 20] {
            let cfg = crate::config::plain();
            let s = cfg.string_from_read(html.as_bytes(), width).expect("renders");
            let lines = crate::config::plain().lines_from_read(html.as_bytes(), width).expect("renders");
            let joined: String = lines.iter().map(|l| { let mut t = l.chars().collect::<String>(); t.push('\n'); t }).collect();
            assert!(joined == s, "{} at width {}: lines route {:?}, string route {:?}", html, width, joined, s);
        }
    }
}

crate::verif_common::registry! {
    m_routes_lines, m_frag_from_id, m_prefix_estimate, m_style_elements, m_sup_children, m_frag_layout, m_selector_entry, m_block_colour_leak, m_footnote_list, m_strike_layout, m_element_dispatch, m_link_min_width, m_table_sections, m_table_caption, m_inline_tags, m_colspan_huge, m_frag_in_word, m_ol_prefix_width, m_dom_reuse, m_columns, m_prefix_blank_lines, m_shallow_empty, m_link_footnotes, m_strike_affix, m_frag_nested, m_dom_children, m_cell_unwind, m_routes_width, m_insert_child, m_ol_numbering, m_prefix_width, m_into_cells, m_table_col_width, m_table_alloc,
    r1_cascade_pairs, r1_cascade_triples, r2_specificity_order, r2_specificity_add,
    r3_ol_prefix_total, r4_ol_prefix_is_max,
    r9_tree_map_reduce_order, r12_config_plumbing, r12_width_zero,
    r14_size_estimate_ops, r15_white_space_modes,
}

