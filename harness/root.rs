// Harnesses that are a child module of the crate root (`crate::verif_root`):
// they can see the private items of src/lib.rs.
#![allow(dead_code, unused_imports, unused_variables, unused_mut)]

use super::*;
#[cfg(not(kani))]
use crate::verif_common::kani;
use crate::verif_common::*;

// ---------------------------------------------------------------------
// R1  WithSpec::maybe_update against the CSS cascade (C19)
// ---------------------------------------------------------------------

#[derive(Clone, Copy)]
struct Decl {
    important: bool,
    origin: u8, // 1 agent, 2 user, 3 author
    inline: bool,
    id: u16,
    class: u16,
    typ: u16,
    val: u8,
}

fn origin_of(o: u8) -> StyleOrigin {
    match o {
        1 => StyleOrigin::Agent,
        2 => StyleOrigin::User,
        _ => StyleOrigin::Author,
    }
}

/// CSS cascade rank of (importance, origin): agent < user < author <
/// author! < user! < agent!
fn rank(d: &Decl) -> u8 {
    if d.important {
        match d.origin {
            3 => 3,
            2 => 4,
            _ => 5,
        }
    } else {
        d.origin - 1
    }
}

/// `a` beats-or-ties `b` when `a` comes later in application order.
fn key_ge(a: &Decl, b: &Decl) -> bool {
    let (ra, rb) = (rank(a), rank(b));
    if ra != rb {
        return ra > rb;
    }
    if a.inline != b.inline {
        return a.inline;
    }
    if a.id != b.id {
        return a.id > b.id;
    }
    if a.class != b.class {
        return a.class > b.class;
    }
    if a.typ != b.typ {
        return a.typ > b.typ;
    }
    true // tie: the later declaration wins
}

fn any_decl(max_spec: u16) -> Decl {
    let d = Decl {
        important: kani::any(),
        origin: kani::any(),
        inline: kani::any(),
        id: kani::any(),
        class: kani::any(),
        typ: kani::any(),
        val: 0,
    };
    kani::assume(d.origin >= 1 && d.origin <= 3);
    kani::assume(d.id <= max_spec && d.class <= max_spec && d.typ <= max_spec);
    // Inline declarations come from the style attribute: author origin,
    // no selector specificity.
    if d.inline {
        kani::assume(d.origin == 3 && d.id == 0 && d.class == 0 && d.typ == 0);
    }
    d
}

/// The order in which `StyleData::computed_style` presents declarations:
/// agent rules, user rules, author rules, then the style attribute.
fn presented_in_order(a: &Decl, b: &Decl) -> bool {
    a.origin <= b.origin && (!a.inline || b.inline)
}

fn apply(ws: &mut WithSpec<u8>, d: &Decl) {
    ws.maybe_update(
        d.important,
        origin_of(d.origin),
        Specificity {
            inline: d.inline,
            id: d.id,
            class: d.class,
            typ: d.typ,
        },
        d.val,
    );
}

#[cfg_attr(kani, kani::proof)]
#[cfg_attr(kani, kani::unwind(2))]
pub(crate) fn r1_cascade_pairs() {
    let mut a = any_decl(u16::MAX);
    let mut b = any_decl(u16::MAX);
    a.val = 1;
    b.val = 2;
    kani::assume(presented_in_order(&a, &b));
    let mut ws: WithSpec<u8> = Default::default();
    apply(&mut ws, &a);
    apply(&mut ws, &b);
    let expect = if key_ge(&b, &a) { 2 } else { 1 };
    kani::cover!(expect == 1);
    kani::cover!(expect == 2 && a.important && !b.important == false);
    assert!(ws.val() == Some(&expect), "cascade winner of two declarations");
}

#[cfg_attr(kani, kani::proof)]
#[cfg_attr(kani, kani::unwind(2))]
pub(crate) fn r1_cascade_triples() {
    let mut a = any_decl(3);
    let mut b = any_decl(3);
    let mut c = any_decl(3);
    a.val = 1;
    b.val = 2;
    c.val = 3;
    kani::assume(presented_in_order(&a, &b));
    kani::assume(presented_in_order(&b, &c));
    let mut ws: WithSpec<u8> = Default::default();
    apply(&mut ws, &a);
    apply(&mut ws, &b);
    apply(&mut ws, &c);
    // reference: streaming maximum, later wins ties
    let mut best = a;
    if key_ge(&b, &best) {
        best = b;
    }
    if key_ge(&c, &best) {
        best = c;
    }
    kani::cover!(best.val == 1);
    kani::cover!(best.val == 2);
    kani::cover!(best.val == 3);
    assert!(ws.val() == Some(&best.val), "cascade winner of three declarations");
}

// ---------------------------------------------------------------------
// R2  Specificity ordering and addition (C19)
// ---------------------------------------------------------------------

fn any_spec() -> Specificity {
    Specificity {
        inline: kani::any(),
        id: kani::any(),
        class: kani::any(),
        typ: kani::any(),
    }
}

#[cfg_attr(kani, kani::proof)]
pub(crate) fn r2_specificity_order() {
    use std::cmp::Ordering::*;
    let a = any_spec();
    let b = any_spec();
    // NB: Kani 0.68 mis-encodes the ordering operators on symbolic `bool`
    // (measured: `true > false` fails); compare through u8.
    let ka = (a.inline as u8, a.id, a.class, a.typ);
    let kb = (b.inline as u8, b.id, b.class, b.typ);
    let expect = if ka < kb {
        Less
    } else if ka > kb {
        Greater
    } else {
        Equal
    };
    kani::cover!(expect == Less);
    kani::cover!(expect == Equal);
    assert!(a.partial_cmp(&b) == Some(expect));
    assert!((a < b) == (expect == Less));
    assert!((a == b) == (expect == Equal));
}

#[cfg_attr(kani, kani::proof)]
pub(crate) fn r2_specificity_add() {
    let a = any_spec();
    let b = any_spec();
    // A selector has far fewer than 2^15 components of each kind.
    kani::assume(a.id < 0x8000 && a.class < 0x8000 && a.typ < 0x8000);
    kani::assume(b.id < 0x8000 && b.class < 0x8000 && b.typ < 0x8000);
    let s = &a + &b;
    assert!(s.inline == (a.inline || b.inline));
    assert!(s.id == a.id + b.id && s.class == a.class + b.class && s.typ == a.typ + b.typ);
    let mut t = a;
    t += &b;
    assert!(t == s);
    kani::cover!(s.id > 0 && s.inline);
}

// ---------------------------------------------------------------------
// R3/R4  ordered list prefix size (C01, C07, C16)
// ---------------------------------------------------------------------

#[cfg_attr(kani, kani::proof)]
#[cfg_attr(kani, kani::unwind(26))]
pub(crate) fn r3_ol_prefix_total() {
    let start: i64 = kani::any();
    let items: usize = kani::any();
    // an <ol> can hold zero <li> (its only children may be text)
    kani::assume(items <= (1usize << 32));
    let dec = KDec::plain_like();
    let w = calc_ol_prefix_size(start, items, &dec);
    kani::cover!(start > i64::MAX - 10 && items > 10);
    kani::cover!(start == i64::MIN && items == 0);
    assert!(w >= 3);
    std::mem::forget(dec);
}

#[cfg_attr(kani, kani::proof)]
#[cfg_attr(kani, kani::unwind(26))]
pub(crate) fn r4_ol_prefix_is_max() {
    let start: i64 = kani::any();
    let items: usize = kani::any();
    let k: usize = kani::any();
    kani::assume(items >= 1 && items <= (1usize << 32));
    kani::assume(k < items);
    // Region where the numbering itself is representable.
    kani::assume(start <= i64::MAX - (1i64 << 32));
    let dec = KDec::plain_like();
    let w = calc_ol_prefix_size(start, items, &dec);
    let nk = start + k as i64;
    let lk = dec_len_i64_thresholds(nk) + 2;
    kani::cover!(start < 0 && nk > 0);
    kani::cover!(start == 9 && k == 1);
    assert!(lk <= w, "every item's marker fits the common marker width");
    let l0 = dec_len_i64_thresholds(start) + 2;
    let l1 = dec_len_i64_thresholds(start + items as i64 - 1) + 2;
    assert!(w == l0 || w == l1, "the width is attained by an end of the list");
}

crate::verif_common::registry! {
    r1_cascade_pairs, r1_cascade_triples, r2_specificity_order, r2_specificity_add,
    r3_ol_prefix_total, r4_ol_prefix_is_max,
}

