// Harnesses that are a child module of `crate::css::parser` (`verif_parser`).
#![allow(dead_code, unused_imports, unused_variables, unused_mut)]

use super::*;
#[cfg(not(kani))]
use crate::verif_common::kani;
use crate::verif_common::*;

crate::verif_common::registry! {
   
}
