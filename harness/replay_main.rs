// examples/verif_replay.rs in the scratch copy: native replay driver.
// usage: verif_replay <harness> <file with one hex string per kani::any() value>
fn main() {
    let args: Vec<String> = std::env::args().collect();
    let name = &args[1];
    let mut data: Vec<Vec<u8>> = Vec::new();
    if args.len() > 2 {
        let text = std::fs::read_to_string(&args[2]).expect("trace file");
        for line in text.lines() {
            let line = line.trim();
            if line.is_empty() || line.starts_with('#') {
                continue;
            }
            let mut v = Vec::new();
            let b = line.as_bytes();
            let mut i = 0;
            while i + 1 < b.len() {
                v.push(u8::from_str_radix(&line[i..i + 2], 16).expect("hex"));
                i += 2;
            }
            data.push(v);
        }
    }
    let hook = std::panic::take_hook();
    std::panic::set_hook(Box::new(move |info| {
        eprintln!("VERIF-REPLAY: values drawn: {:?}", html2text::verif_entry::drawn());
        hook(info);
    }));
    if !html2text::verif_entry::run(name, data) {
        eprintln!("VERIF-REPLAY: no such harness {}", name);
        std::process::exit(5);
    }
}
