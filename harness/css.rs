// Harnesses that are a child module of `crate::css` (`verif_css`).
#![allow(dead_code, unused_imports, unused_variables, unused_mut)]

use super::*;
#[cfg(not(kani))]
use crate::verif_common::kani;
use crate::verif_common::*;

/// `css::parser` is private to `css`; forward replay dispatch to its harness module.
pub(crate) fn parser_dispatch(name: &str) -> Option<fn()> {
    super::parser::verif_parser::dispatch(name)
}


// ---------------------------------------------------------------------
// S3  Selector::specificity counts ids, classes + pseudo-classes, elements
//     (C19).  Selector shapes are concrete (heap-shaped enums chosen
//     symbolically do not finish under CBMC); nth-child coefficients symbolic.
// ---------------------------------------------------------------------
#[cfg_attr(kani, kani::proof)]
#[cfg_attr(kani, kani::unwind(3))]
pub(crate) fn s3_selector_specificity() {
    let a: i32 = kani::any();
    let b: i32 = kani::any();
    let nth = SelectorComponent::NthChild {
        a,
        b,
        sel: Selector { components: vec![SelectorComponent::Star], pseudo_element: None },
    };
    // li:nth-child(an+b)
    let s1 = Selector {
        components: vec![nth, SelectorComponent::Element(String::new())],
        pseudo_element: None,
    };
    let sp1 = s1.specificity();
    assert!(sp1 == Specificity { inline: false, id: 0, class: 1, typ: 1 }, ":nth-child counts as a class");
    // ".c *" (stored right to left)
    let s2 = Selector {
        components: vec![SelectorComponent::Star, SelectorComponent::Class(String::new())],
        pseudo_element: None,
    };
    let sp2 = s2.specificity();
    assert!(sp2 == Specificity { inline: false, id: 0, class: 1, typ: 0 });
    // "#x > e::before"
    let s3 = Selector {
        components: vec![SelectorComponent::Element(String::new()), SelectorComponent::Hash(String::new())],
        pseudo_element: Some(PseudoElement::Before),
    };
    let sp3 = s3.specificity();
    assert!(sp3 == Specificity { inline: false, id: 1, class: 0, typ: 1 });
    // combinators count nothing
    let s4 = Selector {
        components: vec![SelectorComponent::CombChild, SelectorComponent::CombDescendant],
        pseudo_element: None,
    };
    assert!(s4.specificity() == Specificity { inline: false, id: 0, class: 0, typ: 0 });
    assert!(sp2 < sp1 && sp1 < sp3);
    kani::cover!(a < 0 && b > 5);
    std::mem::forget(s1);
    std::mem::forget(s2);
    std::mem::forget(s3);
    std::mem::forget(s4);
}

// ---------------------------------------------------------------------
// Native replay targets for the MIR-level checks (mirsym).  They are plain
// functions (not Kani proofs): bin/check feeds them the solver's model.
// ---------------------------------------------------------------------

/// :nth-child(an+b) on the idx-th <p> of a real parsed document.
pub(crate) fn m_nth_child() {
    let a: i32 = kani::any();
    let b: i32 = kani::any();
    let idx: i32 = kani::any();
    kani::assume(idx >= 1 && idx <= 4096);
    let mut html = String::from("<div>");
    for _ in 0..idx {
        html.push_str("<p>x</p>");
    }
    html.push_str("</div>");
    let dom = crate::config::plain().parse_html(html.as_bytes()).expect("parse");
    // document -> html -> body -> div
    fn find_div(h: &Handle) -> Option<Handle> {
        if let Element { name, .. } = &h.data {
            if &*name.local == "div" {
                return Some(h.clone());
            }
        }
        for c in h.children.borrow().iter() {
            if let Some(d) = find_div(c) {
                return Some(d);
            }
        }
        None
    }
    let div = find_div(&dom.document).expect("div");
    let target = div.children.borrow()[(idx - 1) as usize].clone();
    let sel = Selector {
        components: vec![SelectorComponent::NthChild {
            a,
            b,
            sel: Selector { components: vec![SelectorComponent::Star], pseudo_element: None },
        }],
        pseudo_element: None,
    };
    let got = sel.matches(&target);
    // reference in i64: exists n >= 0 with a*n + b == idx
    let (a64, b64, i64_) = (a as i64, b as i64, idx as i64);
    let d = i64_ - b64;
    let want = if a64 == 0 { d == 0 } else { d % a64 == 0 && d / a64 >= 0 };
    assert!(got == want, ":nth-child({}n+{}) on element {}: got {} want {}", a, b, idx, got, want);
}

/// CSS with huge :nth-child coefficients is accepted or rejected, never a panic (public API).
pub(crate) fn m_nth_parse() {
    let _which: u8 = kani::any();
    for css in [
        "p:nth-child(99999999999) { color: red; }",
        "p:nth-child(99999999999n) { color: red; }",
        "p:nth-child(2n+99999999999) { color: red; }",
        "p:nth-child(-2147483648n+1) { color: red; }",
        "p:nth-child(2147483647n-2147483647) { color: red; }",
    ] {
        let r = crate::config::plain().add_css(css);
        match r {
            Ok(cfg) => {
                let _ = cfg.string_from_read(&b"<div><p>a</p><p>b</p></div>"[..], 20);
            }
            Err(_) => {}
        }
    }
    // the coefficients mean what they say: items hidden by li:nth-child(an+b) are those with an+b = index for some n >= 0
    let html = "<ul><li>i1</li><li>i2</li><li>i3</li><li>i4</li><li>i5</li><li>i6</li><li>i7</li></ul>";
    for (arg, a, b) in [("-2n+5", -2i64, 5i64), ("-3n+8", -3, 8), ("2n+1", 2, 1), ("-n+2", -1, 2), ("n+3", 1, 3), ("+3n-1", 3, -1), ("-1n+4", -1, 4), ("2n", 2, 0), ("3", 0, 3)] {
        let css = format!("li:nth-child({}) {{ display: none; }}", arg);
        let cfg = crate::config::plain().add_css(&css).expect("valid css");
        let out = cfg.string_from_read(html.as_bytes(), 40).expect("renders");
        for idx in 1..=7i64 {
            let want_hidden = (0..=10i64).any(|n| a * n + b == idx);
            let is_hidden = !out.contains(&format!("i{}", idx));
            assert!(want_hidden == is_hidden, "li:nth-child({}): item {} hidden={} but should be {}: {:?}", arg, idx, is_hidden, want_hidden, out);
        }
    }
}

/// An at-rule containing the given character between spaces is skipped in finite time (public API).
pub(crate) fn m_css_progress() {
    let c: u32 = kani::any();
    let ch = char::from_u32(c).unwrap_or('#');
    for css in [format!("@x {} ; p {{ color: red; }}", ch), format!("@x {}", ch), format!("@media ({}) {{ }} p {{ color: red; }}", ch)] {
        let _ = crate::config::plain().add_css(&css);
    }
}

/// Descendant / child combinators never accept the element itself as its own ancestor; negative
/// nth-child steps keep their sign (public API, rich colours).
pub(crate) fn m_descendant_self() {
    let _which: u8 = kani::any();
    let coloured = |css: &str, html: &str| -> Vec<String> {
        let lines = crate::config::rich().add_css(css).expect("css").lines_from_read(html.as_bytes(), 80).expect("renders");
        let mut out = Vec::new();
        for l in lines {
            for ts in l.tagged_strings() {
                if ts.tag.iter().any(|a| matches!(a, crate::render::RichAnnotation::Colour(_))) {
                    for w in ts.s.split_whitespace() {
                        out.push(w.to_string());
                    }
                }
            }
        }
        out
    };
    let html = "<ul><li class=\"item\">outer <ul><li class=\"item\">inner</li></ul></li></ul><p class=\"a b\">solo</p>";
    let got = coloured("li li { color: #f00; }", html);
    assert!(got == vec!["inner".to_string()], "li li coloured {:?}", got);
    let got = coloured(".a .b { color: #f00; }", html);
    assert!(got.is_empty(), ".a .b coloured {:?}", got);
    let got = coloured("ul > li > ul > li { color: #f00; }", html);
    assert!(got == vec!["inner".to_string()], "child chain coloured {:?}", got);
    let items = "<div><p>i1</p><p>i2</p><p>i3</p><p>i4</p><p>i5</p><p>i6</p><p>i7</p></div>";
    let got = coloured("p:nth-child(-2n+5) { color: #f00; }", items);
    assert!(got == vec!["i1".to_string(), "i3".to_string(), "i5".to_string()], "-2n+5 coloured {:?}", got);
    let got = coloured("p:nth-child(-n+2) { color: #f00; }", items);
    assert!(got == vec!["i1".to_string(), "i2".to_string()], "-n+2 coloured {:?}", got);
}

/// Exactly display:none and the zero-height + hidden-overflow idiom hide an element (public API).
pub(crate) fn m_display_none() {
    let _which: u8 = kani::any();
    let html = "<div style=\"height:0;overflow:hidden\">hida</div><div style=\"overflow:hidden\">visa</div>\
                <div style=\"height:0\">visb</div><p style=\"display:none\">hidb</p><p style=\"display:block\">visc</p>\
                <div style=\"max-height:0; overflow-y:hidden\">hidc</div><div style=\"height:1px;overflow:hidden\">visd</div>\
                <div style=\"max-height:0; height:20px; overflow:hidden\">hidd</div><div style=\"overflow:hidden; height:0; max-height:5px\">hide</div>";
    let out = crate::config::plain().use_doc_css().string_from_read(html.as_bytes(), 60).expect("renders");
    for w in ["visa", "visb", "visc", "visd"] {
        assert!(out.contains(w), "{} should be visible: {:?}", w, out);
    }
    for w in ["hida", "hidb", "hidc", "hidd", "hide"] {
        assert!(!out.contains(w), "{} should be hidden: {:?}", w, out);
    }
    // without use_doc_css, styles in the document have no effect
    let out2 = crate::config::plain().string_from_read(html.as_bytes(), 60).expect("renders");
    assert!(out2.contains("hida") && out2.contains("hidb") && out2.contains("hidc"));
}

/// CSS is case-insensitive in property names, keywords and element selectors (public API).
pub(crate) fn m_css_case() {
    let _which: u8 = kani::any();
    let lower = "<style>div.x { display: none; } p { display: none; }</style><div class=\"x\">hida</div><p>hidb</p><span>vis</span>";
    let upper = "<style>DIV.x { DISPLAY: None; } P { Display: NONE; }</style><div class=\"x\">hida</div><p>hidb</p><span>vis</span>";
    let a = crate::config::plain().use_doc_css().string_from_read(lower.as_bytes(), 60).expect("renders");
    let b = crate::config::plain().use_doc_css().string_from_read(upper.as_bytes(), 60).expect("renders");
    assert!(a.contains("vis") && !a.contains("hida") && !a.contains("hidb"), "lower-case sheet: {:?}", a);
    assert!(a == b, "upper-case spelling changes the result: {:?} vs {:?}", a, b);
}

/// The final semicolon of a block is optional: `p{display:none}` hides, and the following rule survives (public API).
pub(crate) fn m_css_final_semicolon() {
    let _which: u8 = kani::any();
    let with = "<style>p{display:none;} div.x{display:none;}</style><p>hida</p><div class=\"x\">hidb</div><span>vis</span>";
    let without = "<style>p{display:none} div.x{display:none}</style><p>hida</p><div class=\"x\">hidb</div><span>vis</span>";
    let a = crate::config::plain().use_doc_css().string_from_read(with.as_bytes(), 60).expect("renders");
    let b = crate::config::plain().use_doc_css().string_from_read(without.as_bytes(), 60).expect("renders");
    assert!(a.contains("vis") && !a.contains("hida") && !a.contains("hidb"), "sheet with final semicolons: {:?}", a);
    assert!(a == b, "dropping the final semicolon changes the result: {:?} vs {:?}", a, b);
}

/// `!important` in a style attribute takes part in the cascade: it beats an `!important` selector rule of the
/// same sheet (inline over selectors), and loses to nothing of the author's (public API, rich colours).
pub(crate) fn m_inline_important() {
    let _which: u8 = kani::any();
    let html = "<style>#x { color: #0000ff !important; } #y { color: #0000ff !important; }</style>\
                <p id=\"x\" style=\"color: #ff0000 !important\">inlineimp</p><p id=\"y\" style=\"color: #ff0000\">inlinenormal</p>";
    let lines = crate::config::rich().use_doc_css().lines_from_read(html.as_bytes(), 60).expect("renders");
    let mut seen = 0;
    for l in lines {
        for ts in l.tagged_strings() {
            let colours: Vec<crate::Colour> = ts.tag.iter().filter_map(|a| if let crate::render::RichAnnotation::Colour(c) = a { Some(*c) } else { None }).collect();
            if ts.s.contains("inlineimp") {
                seen += 1;
                assert!(colours.last().map(|c| (c.r, c.g, c.b)) == Some((255, 0, 0)), "inline !important lost against the rule: {:?}", colours);
            }
            if ts.s.contains("inlinenormal") {
                seen += 1;
                assert!(colours.last().map(|c| (c.r, c.g, c.b)) == Some((0, 0, 255)), "a normal inline declaration beat an !important rule: {:?}", colours);
            }
        }
    }
    assert!(seen == 2, "texts not found");
}

/// Unknown at-rules are skipped as a whole, whatever brackets their prelude holds; the rules after them apply (public API).
pub(crate) fn m_at_rule_skip() {
    let _which: u8 = kani::any();
    let html = "<div class=\"h\">hidden</div><p>para</p><span>vis</span>";
    let plain = "div.h { display: none; }";
    let want = crate::config::plain().add_css(plain).expect("css").string_from_read(html.as_bytes(), 40).expect("renders");
    assert!(!want.contains("hidden") && want.contains("para"), "reference rendering wrong: {:?}", want);
    for sheet in [
        "@media (max-width: 600px) { p { display: none; } } div.h { display: none; }",
        "@media screen and (min-width:100px) { p { display: none; } } div.h { display: none; }",
        "@supports (display: grid) { p { display: none; } } div.h { display: none; }",
        "@import url(foo.css); div.h { display: none; }",
        "@x [a] (b) ; div.h { display: none; }",
        "@font-face { font-family: x; src: url(y) } div.h { display: none; }",
    ] {
        let out = crate::config::plain().add_css(sheet).expect("css").string_from_read(html.as_bytes(), 40).expect("renders");
        assert!(out == want, "sheet {:?} is not equivalent to the plain rule: {:?} vs {:?}", sheet, out, want);
    }
}

/// Class, id, element and universal selectors, and the sibling count of :nth-child, through the public API.
pub(crate) fn m_selector_simple() {
    let _which: u8 = kani::any();
    let html = "<div><p class=\"a b\">ab</p><p class=\"b\">bonly</p><p class=\"ab\">joined</p><p id=\"x\">idx</p><span class=\"b\">spanb</span> text <p>plain</p></div>";
    let hidden = |css: &str| -> Vec<&'static str> {
        let out = crate::config::plain().add_css(css).expect("css").string_from_read(html.as_bytes(), 60).expect("renders");
        ["ab", "bonly", "joined", "idx", "spanb", "plain"].iter().filter(|w| !out.split_whitespace().any(|t| t == **w)).cloned().collect()
    };
    assert!(hidden(".b { display: none; }") == vec!["ab", "bonly", "spanb"], "class selector: {:?}", hidden(".b { display: none; }"));
    assert!(hidden(".a { display: none; }") == vec!["ab"], "class selector (first word): {:?}", hidden(".a { display: none; }"));
    assert!(hidden("#x { display: none; }") == vec!["idx"], "id selector: {:?}", hidden("#x { display: none; }"));
    assert!(hidden("span { display: none; }") == vec!["spanb"], "element selector: {:?}", hidden("span { display: none; }"));
    assert!(hidden("p.b { display: none; }") == vec!["ab", "bonly"], "compound selector: {:?}", hidden("p.b { display: none; }"));
    assert!(hidden("div > * { display: none; }").len() == 6, "universal selector: {:?}", hidden("div > * { display: none; }"));
    // :nth-child counts element siblings only (the text node between the span and the last p does not count)
    assert!(hidden("p:nth-child(6) { display: none; }") == vec!["plain"], "nth-child sibling count: {:?}", hidden("p:nth-child(6) { display: none; }"));
    assert!(hidden("span:nth-child(5) { display: none; }") == vec!["spanb"], "nth-child sibling count: {:?}", hidden("span:nth-child(5) { display: none; }"));
    assert!(hidden("p:nth-child(5) { display: none; }").is_empty(), "nth-child must also match the element: {:?}", hidden("p:nth-child(5) { display: none; }"));
}

/// Whitespace and comments anywhere between the elements of a rule set's block do not matter.
pub(crate) fn m_css_ws() {
    let _which: u8 = kani::any();
    let base = "<style>p{display:none;} div.x{display:none;}</style><p>hida</p><div class=\"x\">hidb</div><span>vis</span>";
    let want = crate::config::plain().use_doc_css().string_from_read(base.as_bytes(), 60).expect("renders");
    assert!(want.contains("vis") && !want.contains("hida") && !want.contains("hidb"), "reference sheet: {:?}", want);
    let variants: [&str; 7] = [
        "p { display : none ; } div.x { display : none ; }", "p{display:none ;}div.x{display:none ;}", "p{display:none/* c */;}div.x{display:none\n;\n}",
        " p\n{\n\tdisplay:none\n}\n div.x\n{\n\tdisplay:none\n}\n", "p{/* a */display:none/* b */}/* c */div.x{display:none}", "p{display:none; }div.x{ display:none}",
        "p{display:none;/* x */}div.x{display:none;\t}",
    ];
    for v in variants.iter() {
        let html = format!("<style>{}</style><p>hida</p><div class=\"x\">hidb</div><span>vis</span>", v);
        let got = crate::config::plain().use_doc_css().string_from_read(html.as_bytes(), 60).expect("renders");
        assert!(got == want, "sheet {:?} styles the document differently: {:?} vs {:?}", v, got, want);
    }
}

crate::verif_common::registry! {
    m_css_ws, m_selector_simple, m_at_rule_skip, m_inline_important, m_css_final_semicolon, m_css_case, m_display_none, m_descendant_self, m_css_progress, m_nth_parse, m_nth_child,
    s3_selector_specificity,
}
