// Harnesses that are a child module of `crate::css` (`verif_css`).
#![allow(dead_code, unused_imports, unused_variables, unused_mut)]

use super::*;
#[cfg(not(kani))]
use crate::verif_common::kani;
use crate::verif_common::*;

/// `css::parser` is private to `css`; forward replay dispatch to its harness module.
pub(crate) fn parser_dispatch(name: &str) -> Option<fn()> {
    super::parser::verif_parser::dispatch(name)
}


crate::verif_common::registry! {
}
