// Harnesses that are a child module of `crate::render::text_renderer`
// (`verif_tr`): they can see the private items of text_renderer.rs.
#![allow(dead_code, unused_imports, unused_variables, unused_mut)]

use super::*;
#[cfg(not(kani))]
use crate::verif_common::kani;
use crate::verif_common::*;

fn any_options() -> RenderOptions {
    let has_wrap: bool = kani::any();
    let ww: usize = kani::any();
    RenderOptions {
        wrap_width: if has_wrap { Some(ww) } else { None },
        allow_width_overflow: kani::any(),
        pad_block_width: kani::any(),
        raw: kani::any(),
        draw_borders: kani::any(),
        wrap_links: kani::any(),
        include_link_footnotes: kani::any(),
        use_unicode_strikeout: kani::any(),
    }
}

// ---------------------------------------------------------------------
// T1  SubRenderer::width_minus  (C01, C02, C07, C11)
// ---------------------------------------------------------------------
#[cfg_attr(kani, kani::proof)]
#[cfg_attr(kani, kani::unwind(2))]
pub(crate) fn t1_width_minus() {
    let width: usize = kani::any();
    let prefix: usize = kani::any();
    let min_width: usize = kani::any();
    let mut opts = any_options();
    opts.allow_width_overflow = false;
    let r_strict = SubRenderer::new(width, opts.clone(), TrivialDecorator::new());
    opts.allow_width_overflow = true;
    let r_over = SubRenderer::new(width, opts, TrivialDecorator::new());

    let strict = r_strict.width_minus(prefix, min_width);
    let over = r_over.width_minus(prefix, min_width);

    // With overflow allowed the call never fails.
    assert!(over.is_ok());
    let w_over = over.unwrap();
    assert!(w_over >= min_width);
    match strict {
        Ok(w) => {
            // Allowing overflow is a no-op for a width that already fits.
            assert!(w == w_over);
            assert!(w >= min_width);
            // Content plus prefix fits the parent exactly.
            if prefix <= width {
                assert!(w + prefix == width);
            } else {
                assert!(w == 0 && min_width == 0);
            }
            kani::cover!(prefix > width);
            kani::cover!(w > 0);
        }
        Err(_) => {
            // It only fails when the remaining width cannot hold min_width,
            // and then the overflowed block is exactly min_width wide.
            assert!(width.saturating_sub(prefix) < min_width);
            assert!(w_over == min_width);
            kani::cover!(true);
        }
    }
    std::mem::forget(r_strict);
    std::mem::forget(r_over);
}

// ---------------------------------------------------------------------
// T2  get_wrapping_or_insert: wrap width = min(max_wrap_width, width) (C02, C15)
// ---------------------------------------------------------------------
#[cfg_attr(kani, kani::proof)]
#[cfg_attr(kani, kani::unwind(2))]
pub(crate) fn t2_wrap_width() {
    let width: usize = kani::any();
    let opts = any_options();
    let mut slot: Option<WrappedBlock<Vec<()>>> = None;
    let wb = get_wrapping_or_insert::<TrivialDecorator>(&mut slot, &opts, width);
    match opts.wrap_width {
        Some(m) => {
            assert!(wb.width <= width && wb.width <= m);
            assert!(wb.width == width || wb.width == m);
            if m >= width {
                assert!(wb.width == width); // option is a no-op
            }
            kani::cover!(m < width);
            kani::cover!(m >= width);
        }
        None => assert!(wb.width == width),
    }
    assert!(wb.pad_blocks == opts.pad_block_width);
    assert!(wb.allow_overflow == opts.allow_width_overflow);
    assert!(wb.text.is_empty() && wb.line.len == 0 && wb.wordlen == 0 && wb.wslen == 0);
    // A second call returns the existing block unchanged, whatever is passed.
    let w0 = wb.width;
    let width2: usize = kani::any();
    let wb2 = get_wrapping_or_insert::<TrivialDecorator>(&mut slot, &opts, width2);
    assert!(wb2.width == w0);
    std::mem::forget(slot);
}


// ---------------------------------------------------------------------
// T3  BorderHoriz junction algebra (C05)
// ---------------------------------------------------------------------

fn seg_code(s: BorderSegHoriz) -> u8 {
    match s {
        BorderSegHoriz::Straight => 0,
        BorderSegHoriz::JoinAbove => 1,
        BorderSegHoriz::JoinBelow => 2,
        BorderSegHoriz::JoinCross => 3,
        BorderSegHoriz::StraightVert => 4,
    }
}
fn seg_of(c: u8) -> BorderSegHoriz {
    match c {
        0 => BorderSegHoriz::Straight,
        1 => BorderSegHoriz::JoinAbove,
        2 => BorderSegHoriz::JoinBelow,
        3 => BorderSegHoriz::JoinCross,
        _ => BorderSegHoriz::StraightVert,
    }
}
/// Reference: the glyph class is exactly (bar above, bar below).
fn expect_code(above: bool, below: bool) -> u8 {
    (above as u8) | ((below as u8) << 1)
}

const T3_N: usize = 6;

fn any_seg() -> (BorderSegHoriz, u8) {
    let c: u8 = kani::any();
    kani::assume(c <= 4);
    (seg_of(c), c)
}

/// One join_above / join_below at any position of a 6-cell rule whose cells
/// are in an arbitrary state: only the joined cell changes, and it gains
/// exactly the new bar (a stacked-row separator absorbs joins).  This is the
/// inductive step for every sequence of joins: a cell's kind is always the
/// pair (bar above, bar below) of the joins applied to it.
#[cfg_attr(kani, kani::proof)]
#[cfg_attr(kani, kani::unwind(3))]
pub(crate) fn t3_border_join_step() {
    let (s0, c0) = any_seg();
    let (s1, c1) = any_seg();
    let (s2, c2) = any_seg();
    let (s3, c3) = any_seg();
    let (s4, c4) = any_seg();
    let (s5, c5) = any_seg();
    let pre = [c0, c1, c2, c3, c4, c5];
    let mut b: BorderHoriz<u8> = BorderHoriz {
        segments: vec![s0, s1, s2, s3, s4, s5],
        tag: 7u8,
    };
    let up: bool = kani::any();
    let x: usize = kani::any();
    kani::assume(x < T3_N);
    if up {
        b.join_above(x);
    } else {
        b.join_below(x);
    }
    assert!(b.segments.len() == T3_N, "joins inside the rule do not stretch it");
    let i: usize = kani::any();
    kani::assume(i < T3_N);
    let got = seg_code(b.segments[i]);
    let want = if i != x || pre[i] == 4 {
        pre[i]
    } else if up {
        pre[i] | 1
    } else {
        pre[i] | 2
    };
    assert!(got == want);
    kani::cover!(i == x && pre[i] == 2 && up);
    kani::cover!(i == x && pre[i] == 4);
    kani::cover!(i != x);
    assert!(b.tag == 7);
    std::mem::forget(b);
}

/// Joining beyond the end stretches with straight cells only.
#[cfg_attr(kani, kani::proof)]
#[cfg_attr(kani, kani::unwind(6))]
pub(crate) fn t3_border_stretch() {
    let mut b: BorderHoriz<u8> = BorderHoriz::new(2, 0u8);
    let x: usize = kani::any();
    kani::assume(x < 5);
    let up: bool = kani::any();
    if up {
        b.join_above(x);
    } else {
        b.join_below(x);
    }
    let want_len = if x + 1 > 2 { x + 1 } else { 2 };
    assert!(b.segments.len() == want_len);
    let i: usize = kani::any();
    kani::assume(i < want_len);
    let code = seg_code(b.segments[i]);
    if i == x {
        assert!(code == if up { 1 } else { 2 });
    } else {
        assert!(code == 0);
    }
    kani::cover!(x >= 3 && i < x && i >= 2);
    std::mem::forget(b);
}

/// merge_from_below / merge_from_above of a 3-cell partial rule with symbolic
/// cells at a symbolic offset into a 6-cell rule with symbolic cells.
#[cfg_attr(kani, kani::proof)]
#[cfg_attr(kani, kani::unwind(5))]
pub(crate) fn t3_border_merge() {
    let (s0, c0) = any_seg();
    let (s1, c1) = any_seg();
    let (s2, c2) = any_seg();
    let (s3, c3) = any_seg();
    let (s4, c4) = any_seg();
    let (s5, c5) = any_seg();
    let pre = [c0, c1, c2, c3, c4, c5];
    let mut b: BorderHoriz<u8> = BorderHoriz {
        segments: vec![s0, s1, s2, s3, s4, s5],
        tag: 0u8,
    };
    let (o0, d0) = any_seg();
    let (o1, d1) = any_seg();
    let (o2, d2) = any_seg();
    let oc = [d0, d1, d2];
    let other: BorderHoriz<u8> = BorderHoriz {
        segments: vec![o0, o1, o2],
        tag: 0u8,
    };
    let pos: usize = kani::any();
    kani::assume(pos <= T3_N - 3);
    let from_below: bool = kani::any();
    if from_below {
        b.merge_from_below(&other, pos);
    } else {
        b.merge_from_above(&other, pos);
    }
    assert!(b.segments.len() == T3_N);
    let i: usize = kani::any();
    kani::assume(i < T3_N);
    let got = seg_code(b.segments[i]);
    // bars of `other` are where it has any junction
    let bar = i >= pos && i < pos + 3 && {
        let c = oc[i - pos];
        c == 1 || c == 2 || c == 3
    };
    let want = if pre[i] == 4 {
        4 // a stacked-row separator absorbs joins
    } else if !bar {
        pre[i]
    } else if from_below {
        pre[i] | 2
    } else {
        pre[i] | 1
    };
    assert!(got == want);
    kani::cover!(bar && pre[i] == 1 && from_below);
    kani::cover!(pre[i] == 4 && bar);
    std::mem::forget(b);
    std::mem::forget(other);
}

/// merge_from_below / merge_from_above of a 2-cell partial rule with symbolic
/// cells at a symbolic offset into a 4-cell rule with symbolic cells.
#[cfg_attr(kani, kani::proof)]
#[cfg_attr(kani, kani::unwind(4))]
pub(crate) fn t3_border_merge_small() {
    let (s0, c0) = any_seg();
    let (s1, c1) = any_seg();
    let (s2, c2) = any_seg();
    let (s3, c3) = any_seg();
    let pre = [c0, c1, c2, c3];
    let mut b: BorderHoriz<u8> = BorderHoriz {
        segments: vec![s0, s1, s2, s3],
        tag: 0u8,
    };
    let (o0, d0) = any_seg();
    let (o1, d1) = any_seg();
    let oc = [d0, d1];
    let other: BorderHoriz<u8> = BorderHoriz {
        segments: vec![o0, o1],
        tag: 0u8,
    };
    let pos: usize = kani::any();
    kani::assume(pos <= 4 - 2);
    let from_below: bool = kani::any();
    if from_below {
        b.merge_from_below(&other, pos);
    } else {
        b.merge_from_above(&other, pos);
    }
    assert!(b.segments.len() == 4);
    let i: usize = kani::any();
    kani::assume(i < 4);
    let got = seg_code(b.segments[i]);
    // bars of `other` are where it has any junction
    let bar = i >= pos && i < pos + 2 && {
        let c = oc[i - pos];
        c == 1 || c == 2 || c == 3
    };
    let want = if pre[i] == 4 {
        4 // a stacked-row separator absorbs joins
    } else if !bar {
        pre[i]
    } else if from_below {
        pre[i] | 2
    } else {
        pre[i] | 1
    };
    assert!(got == want);
    kani::cover!(bar && pre[i] == 1 && from_below);
    kani::cover!(pre[i] == 4 && bar);
    std::mem::forget(b);
    std::mem::forget(other);
}

/// Glyphs: each cell kind maps to the box-drawing character for its bars,
/// and the vertical-lines string has a bar exactly under an upward junction.
#[cfg_attr(kani, kani::proof)]
#[cfg_attr(kani, kani::unwind(4))]
pub(crate) fn t3_border_glyphs() {
    let (s0, c0) = any_seg();
    let b: BorderHoriz<u8> = BorderHoriz {
        segments: vec![s0],
        tag: 0u8,
    };
    let s = b.to_string();
    let glyph = match c0 {
        0 => '─',
        1 => '┴',
        2 => '┬',
        3 => '┼',
        _ => '/',
    };
    let mut it = s.chars();
    assert!(it.next() == Some(glyph));
    assert!(it.next().is_none());
    kani::cover!(c0 == 3);
    kani::cover!(c0 == 4);
    std::mem::forget(b);
    std::mem::forget(s);
}

#[cfg_attr(kani, kani::proof)]
#[cfg_attr(kani, kani::unwind(4))]
pub(crate) fn t3_border_vertical_lines() {
    let (s0, c0) = any_seg();
    let b: BorderHoriz<u8> = BorderHoriz {
        segments: vec![s0],
        tag: 0u8,
    };
    let v = b.to_vertical_lines_above();
    let mut iv = v.chars();
    let bar = if c0 == 1 || c0 == 3 { '│' } else { ' ' };
    assert!(iv.next() == Some(bar));
    assert!(iv.next().is_none());
    kani::cover!(c0 == 3);
    kani::cover!(c0 == 2);
    std::mem::forget(b);
    std::mem::forget(v);
}

// ---------------------------------------------------------------------
// T4  TaggedLine bookkeeping: len == display width, text and tags preserved,
//     adjacent pieces merge iff their tags are equal (C02, C03, C09, C15)
// ---------------------------------------------------------------------

const T4_PIECES: [&str; 4] = ["ab", "字", "e\u{301}", ""];

fn t4_piece(i: u8) -> &'static str {
    match i {
        0 => T4_PIECES[0],
        1 => T4_PIECES[1],
        2 => T4_PIECES[2],
        _ => T4_PIECES[3],
    }
}
fn t4_width(i: u8) -> usize {
    match i {
        0 => 2,
        1 => 2,
        2 => 1,
        _ => 0,
    }
}

fn n_str_elems(l: &TaggedLine<u8>) -> usize {
    let mut n = 0;
    for e in l.v.iter() {
        if let TaggedLineElement::Str(_) = e {
            n += 1;
        }
    }
    n
}

fn t4_first(l: &TaggedLine<u8>) -> (&str, u8) {
    if let Some(TaggedLineElement::Str(ts)) = l.v.first() {
        (ts.s.as_str(), ts.tag)
    } else {
        panic!("first element is not a string");
    }
}
fn t4_last(l: &TaggedLine<u8>) -> (&str, u8) {
    if let Some(TaggedLineElement::Str(ts)) = l.v.last() {
        (ts.s.as_str(), ts.tag)
    } else {
        panic!("last element is not a string");
    }
}

/// push_str of a wide piece after an ASCII piece: len bookkeeping, merge iff
/// equal tags, order and tags preserved.  Text concrete, tags symbolic.
#[cfg_attr(kani, kani::proof)]
#[cfg_attr(kani, kani::unwind(8))]
#[cfg_attr(kani, kani::stub(unicode_width::tables::str_width, crate::verif_common::stub_str_width))]
#[cfg_attr(kani, kani::stub(unicode_width::tables::single_char_width, crate::verif_common::stub_single_char_width))]
pub(crate) fn t4_tagged_push_str() {
    let t0: u8 = kani::any();
    let t1: u8 = kani::any();
    let mut l: TaggedLine<u8> = TaggedLine::new();
    l.push_str(TaggedString { s: "ab".to_string(), tag: t0 });
    assert!(l.len == 2);
    l.push_str(TaggedString { s: "字".to_string(), tag: t1 });
    assert!(l.len == 4);
    // an empty piece changes nothing
    l.push_str(TaggedString { s: String::new(), tag: kani::any() });
    assert!(l.len == 4);
    let n = n_str_elems(&l);
    assert!(n == if t0 == t1 { 1 } else { 2 });
    assert!(l.v.len() == n);
    let (fs, ft) = t4_first(&l);
    let (ls, lt) = t4_last(&l);
    assert!(ft == t0 && lt == t1);
    if t0 == t1 {
        assert!(fs.len() == 5);
        assert!(fs.as_bytes()[0] == b'a' && fs.as_bytes()[1] == b'b' && fs.as_bytes()[2] == 0xe5);
    } else {
        assert!(fs.len() == 2 && ls.len() == 3);
        assert!(fs.as_bytes()[0] == b'a' && ls.as_bytes()[0] == 0xe5);
    }
    kani::cover!(t0 == t1);
    kani::cover!(t0 != t1);
    std::mem::forget(l);
}

/// insert_front (used for list/quote prefixes): len, merge iff equal tags, order.
#[cfg_attr(kani, kani::proof)]
#[cfg_attr(kani, kani::unwind(8))]
#[cfg_attr(kani, kani::stub(unicode_width::tables::str_width, crate::verif_common::stub_str_width))]
#[cfg_attr(kani, kani::stub(unicode_width::tables::single_char_width, crate::verif_common::stub_single_char_width))]
pub(crate) fn t4_tagged_insert_front() {
    let t0: u8 = kani::any();
    let t1: u8 = kani::any();
    let mut l: TaggedLine<u8> = TaggedLine::new();
    l.push_str(TaggedString { s: "ab".to_string(), tag: t0 });
    l.insert_front(TaggedString { s: "）".to_string(), tag: t1 });
    assert!(l.len == 4);
    let n = n_str_elems(&l);
    assert!(n == if t0 == t1 { 1 } else { 2 });
    let (fs, ft) = t4_first(&l);
    let (ls, lt) = t4_last(&l);
    assert!(ft == t1 && lt == t0);
    if t0 == t1 {
        assert!(fs.len() == 5);
    } else {
        assert!(fs.len() == 3 && ls.len() == 2);
    }
    kani::cover!(t0 == t1);
    kani::cover!(t0 != t1);
    std::mem::forget(l);
}

/// push_char: width by character class (ASCII 1, wide 2, combining 0), merge iff equal tags.
#[cfg_attr(kani, kani::proof)]
#[cfg_attr(kani, kani::unwind(8))]
#[cfg_attr(kani, kani::stub(unicode_width::tables::str_width, crate::verif_common::stub_str_width))]
#[cfg_attr(kani, kani::stub(unicode_width::tables::single_char_width, crate::verif_common::stub_single_char_width))]
pub(crate) fn t4_tagged_push_char() {
    let t0: u8 = kani::any();
    let t1: u8 = kani::any();
    let mut l: TaggedLine<u8> = TaggedLine::new();
    l.push_str(TaggedString { s: "ab".to_string(), tag: t0 });
    let ci: u8 = kani::any();
    kani::assume(ci < 3);
    let w = match ci {
        0 => {
            l.push_char('x', &t1);
            1
        }
        1 => {
            l.push_char('字', &t1);
            2
        }
        _ => {
            l.push_char('\u{301}', &t1);
            0
        }
    };
    assert!(l.len == 2 + w);
    let n = n_str_elems(&l);
    assert!(n == if t0 == t1 { 1 } else { 2 });
    let (ls, lt) = t4_last(&l);
    assert!(lt == t1);
    let clen = match ci {
        0 => 1,
        1 => 3,
        _ => 2,
    };
    assert!(ls.len() == if t0 == t1 { 2 + clen } else { clen });
    kani::cover!(ci == 2 && t0 != t1);
    kani::cover!(ci == 1 && t0 == t1);
    std::mem::forget(l);
}

/// A fragment marker has no width, is not text, and separates pieces: no
/// merge across it even when the tags are equal.
#[cfg_attr(kani, kani::proof)]
#[cfg_attr(kani, kani::unwind(6))]
#[cfg_attr(kani, kani::stub(unicode_width::tables::str_width, crate::verif_common::stub_str_width))]
#[cfg_attr(kani, kani::stub(unicode_width::tables::single_char_width, crate::verif_common::stub_single_char_width))]
pub(crate) fn t4_tagged_frag_consume() {
    let t0: u8 = kani::any();
    let t1: u8 = kani::any();
    let mut w: TaggedLine<u8> = TaggedLine::new();
    w.push(TaggedLineElement::FragmentStart(String::new()));
    assert!(w.len == 0 && w.is_empty() && w.v.len() == 1);
    w.push(TaggedLineElement::Str(TaggedString { s: "cd".to_string(), tag: t0 }));
    assert!(w.len == 2 && !w.is_empty() && w.v.len() == 2);
    w.push(TaggedLineElement::FragmentStart(String::new()));
    w.push(TaggedLineElement::Str(TaggedString { s: "e".to_string(), tag: t1 }));
    assert!(w.len == 3);
    assert!(w.v.len() == 4, "no merging across a fragment marker");
    kani::cover!(t0 == t1);
    std::mem::forget(w);
}


// ---------------------------------------------------------------------
// T5  annotation stack: push on start_*, pop on end_*, outermost first;
//     a sub-renderer starts from a copy (C09)
// ---------------------------------------------------------------------

fn t5_start(r: &mut SubRenderer<RichDecorator>, kind: u8) {
    let res = match kind {
        0 => r.start_emphasis(),
        1 => r.start_strong(),
        2 => r.start_code(),
        _ => r.start_superscript(),
    };
    assert!(res.is_ok());
}
fn t5_end(r: &mut SubRenderer<RichDecorator>, kind: u8) {
    let res = match kind {
        0 => r.end_emphasis(),
        1 => r.end_strong(),
        2 => r.end_code(),
        _ => r.end_superscript(),
    };
    assert!(res.is_ok());
}
fn t5_ann_is(a: &RichAnnotation, kind: u8) -> bool {
    match (a, kind) {
        (RichAnnotation::Emphasis, 0) => true,
        (RichAnnotation::Strong, 1) => true,
        (RichAnnotation::Code, 2) => true,
        (RichAnnotation::Default, 3) => true, // superscript carries the default annotation
        _ => false,
    }
}

#[cfg_attr(kani, kani::proof)]
#[cfg_attr(kani, kani::unwind(3))]
pub(crate) fn t5_annotation_stack() {
    let k0: u8 = kani::any();
    kani::assume(k0 < 4);
    let width: usize = kani::any();
    kani::assume(width >= 1);
    let opts = RenderOptions::default();
    let mut r = SubRenderer::new(width, opts, RichDecorator::new());
    r.ann_stack.push(RichAnnotation::Strikeout); // enclosing element
    t5_start(&mut r, k0);
    assert!(r.ann_stack.len() == 2);
    assert!(matches!(r.ann_stack[0], RichAnnotation::Strikeout), "outermost first");
    assert!(t5_ann_is(&r.ann_stack[1], k0));
    t5_end(&mut r, k0);
    assert!(r.ann_stack.len() == 1, "no annotation leaks past its element");
    assert!(matches!(r.ann_stack[0], RichAnnotation::Strikeout));
    kani::cover!(k0 == 2);
    kani::cover!(k0 == 3);
    std::mem::forget(r);
}

// ---------------------------------------------------------------------
// V1  border drawing is governed by draw_borders only (C15, C05)
// ---------------------------------------------------------------------

fn count_border_lines(r: &SubRenderer<TrivialDecorator>) -> usize {
    let mut n = 0;
    for l in r.lines.iter() {
        if let RenderLine::Line(_) = l {
            n += 1;
        }
    }
    n
}

/// Stacked-row fallback with no cells: a closing rule is drawn iff borders are enabled.
#[cfg_attr(kani, kani::proof)]
#[cfg_attr(kani, kani::unwind(5))]
pub(crate) fn v1_vert_row_borders() {
    let mut opts = RenderOptions::default();
    opts.draw_borders = kani::any();
    opts.raw = kani::any();
    opts.pad_block_width = kani::any();
    let db = opts.draw_borders;
    let mut r = SubRenderer::new(3, opts, TrivialDecorator::new());
    let res = r.append_vert_row(Vec::new());
    assert!(res.is_ok());
    assert!(r.lines.len() == db as usize, "a rule is drawn iff table borders are enabled");
    assert!(count_border_lines(&r) == db as usize);
    if db {
        if let Some(RenderLine::Line(b)) = r.lines.back() {
            assert!(b.segments.len() == 3, "the closing rule spans the full width");
        } else {
            panic!("expected a rule");
        }
    }
    kani::cover!(!db && !r.options.raw);
    kani::cover!(db);
    std::mem::forget(r);
}


// ---------------------------------------------------------------------
// Native replay target for the WrappedBlock specs of mirsym: builds a block
// in the given state, feeds it the given characters (or just flushes the
// word when there are none) and checks termination, the width bound and the
// representation invariant.
// ---------------------------------------------------------------------
pub(crate) fn m_wrap_step() {
    use self::TaggedLineElement::Str;
    let mode: u8 = kani::any();
    let width: usize = kani::any();
    let line_len: usize = kani::any();
    let wslen: usize = kani::any();
    let wordlen: usize = kani::any();
    let word_nonempty: bool = kani::any();
    let allow_overflow: bool = kani::any();
    let pre_wrapped: bool = kani::any();
    let nchars: u8 = kani::any();
    kani::assume(width <= 4096 && line_len <= width && wslen <= 4096 && wordlen <= 4096 && nchars <= 3);
    let ws = match mode {
        0 => WhiteSpace::Normal,
        1 => WhiteSpace::Pre,
        _ => WhiteSpace::PreWrap,
    };
    let mut wb: WrappedBlock<u8> = WrappedBlock::new(width, false, allow_overflow);
    if line_len > 0 {
        wb.line.push_str(TaggedString { s: "x".repeat(line_len), tag: 1 });
    }
    if word_nonempty || wordlen > 0 {
        if wordlen > 0 {
            wb.word.push_str(TaggedString { s: "y".repeat(wordlen), tag: 2 });
        } else {
            wb.word.push_str(TaggedString { s: "\u{301}".to_string(), tag: 2 });
        }
    }
    wb.wordlen = wordlen;
    wb.wslen = wslen;
    wb.spacetag = if wslen > 0 { Some(3) } else { None };
    wb.pre_wrapped = pre_wrapped;
    let mut text = String::new();
    for _ in 0..nchars {
        let c: u32 = kani::any();
        text.push(char::from_u32(c).unwrap_or('?'));
    }
    let had_word = word_nonempty || wordlen > 0;
    let lines_before = wb.text.len();
    let r = if nchars == 0 { wb.flush_word(ws) } else { wb.add_text(&text, ws, &5u8, &6u8) };
    match r {
        Err(_) => assert!(!allow_overflow, "TooNarrow although overflow is allowed"),
        Ok(()) => {
            // continuation mark of preformatted lines
            if nchars == 0 {
                if had_word {
                    let fits = wslen.checked_add(wordlen).map_or(false, |n| n <= width - line_len);
                    assert!(wb.pre_wrapped == (ws == WhiteSpace::Pre && !fits),
                            "continuation mark {} after flushing a word (mode {}, fits {})", wb.pre_wrapped, mode, fits);
                } else {
                    assert!(wb.pre_wrapped == pre_wrapped, "continuation mark changed without a pending word");
                }
            } else if ws == WhiteSpace::Normal && !had_word && text.chars().all(char::is_whitespace) && wslen <= 1 && (wslen == 0 || line_len > 0) {
                // a whitespace run of any composition has the effect of one space (none at the start of a line)
                assert!(wb.text.len() == lines_before && wb.line.len == line_len && wb.wordlen == 0, "whitespace alone emitted something");
                assert!(wb.wslen == (line_len != 0) as usize, "whitespace run {:?} leaves {} pending columns on a line of {}", text, wb.wslen, line_len);
            } else if nchars == 1 && !had_word && ws != WhiteSpace::Normal && text == "\t" {
                let col = line_len + wslen;
                let nxt = (col / 8 + 1) * 8;
                if nxt <= width {
                    assert!(wb.line.len + wb.wslen == nxt && wb.text.len() == lines_before,
                            "a tab from column {} must land on column {}, got {} (+{} pending)", col, nxt, wb.line.len, wb.wslen);
                }
            } else if nchars == 1 && !had_word && ws != WhiteSpace::Normal && text == "\n" {
                assert!(!wb.pre_wrapped, "a hard newline must end the continuation of a broken preformatted line");
                assert!(wb.text.len() == lines_before + 1 && wb.line.len == 0 && wb.wslen == 0, "a newline ends the line and resets pending space");
            }
            if !allow_overflow {
                assert!(wb.line.len <= width, "current line wider than the block: {} > {}", wb.line.len, width);
                for l in wb.text.iter() {
                    assert!(l.len <= width, "flushed line wider than the block: {} > {}", l.len, width);
                }
            }
            assert!(wb.line.width() == wb.line.len);
            if ws == WhiteSpace::Normal {
                assert!(wb.wslen <= 1, "collapsed whitespace is at most one column");
            }
            // no character that is not whitespace is lost, duplicated or reordered
            let mut got = String::new();
            for l in wb.text.iter().chain(std::iter::once(&wb.line)).chain(std::iter::once(&wb.word)) {
                got.extend(l.chars().filter(|c| !c.is_whitespace()));
            }
            let mut want = "x".repeat(line_len);
            if had_word {
                if wordlen > 0 { want.push_str(&"y".repeat(wordlen)); } else { want.push('\u{301}'); }
            }
            want.extend(text.chars().filter(|c| !c.is_whitespace() && UnicodeWidthChar::width(*c).is_some()));
            assert!(got == want, "characters lost, duplicated or reordered: {:?}, want {:?}", got, want);
        }
    }
}

// ---------------------------------------------------------------------
// Native replay target for mirsym's wrap_hard_wrap: a word of the given pieces is hard-wrapped
// into a block of the given width; no line may be wider than the block and no character may be
// lost, duplicated or reordered.
// ---------------------------------------------------------------------
pub(crate) fn m_hard_wrap() {
    let width: usize = kani::any();
    let line_len: usize = kani::any();
    let allow_overflow: bool = kani::any();
    let markers: bool = kani::any();
    let npieces: u8 = kani::any();
    kani::assume(width <= 4096 && line_len <= width && npieces <= 4);
    let mut wb: WrappedBlock<u8> = WrappedBlock::new(width, false, allow_overflow);
    if line_len > 0 {
        wb.line.push_str(TaggedString { s: "x".repeat(line_len), tag: 1 });
    }
    let mut all = String::new();
    let mut want_marks: Vec<(String, usize)> = Vec::new();   // marker name, number of word characters before it
    for i in 0..npieces {
        if markers && i > 0 {
            let name = format!("m{}", i);
            want_marks.push((name.clone(), all.chars().count()));
            wb.word.push(TaggedLineElement::FragmentStart(name));
        }
        let n: u8 = kani::any();
        kani::assume(n <= 4);
        let mut piece = String::new();
        for _ in 0..n {
            let c: u32 = kani::any();
            piece.push(char::from_u32(c).unwrap_or('?'));
        }
        all.push_str(&piece);
        wb.wordlen += UnicodeWidthStr::width(piece.as_str());
        wb.word.push_str(TaggedString { s: piece, tag: 2 + i });
    }
    match wb.flush_word_hard_wrap() {
        Err(_) => {
            assert!(!allow_overflow, "TooNarrow although overflow is allowed");
            assert!(all.chars().any(|c| UnicodeWidthChar::width(c).unwrap_or(0) > width), "TooNarrow although every character fits");
        }
        Ok(()) => {
            if !allow_overflow {
                assert!(wb.line.len <= width, "current line wider than the block: {} > {}", wb.line.len, width);
                for l in wb.text.iter() {
                    assert!(l.len <= width, "flushed line wider than the block: {} > {}", l.len, width);
                }
            }
            // with overflow allowed a line overflows only by a character that is wider than the block
            if all.chars().all(|c| UnicodeWidthChar::width(c).unwrap_or(0) <= width) {
                for l in wb.text.iter() {
                    assert!(l.len <= width, "a line overflows although every character fits the block: {} > {}", l.len, width);
                }
            }
            assert!(wb.line.width() == wb.line.len, "line length bookkeeping differs from the display width");
            let mut got = String::new();
            for l in wb.text.iter() {
                got.extend(l.chars());
            }
            got.extend(wb.line.chars());
            assert!(got == format!("{}{}", "x".repeat(line_len), all), "characters lost, duplicated or reordered: {:?} from {:?}", got, all);
            // fragment markers of the word are kept, each after the characters that preceded it
            let mut got_marks: Vec<(String, usize)> = Vec::new();
            let mut seen = 0usize;
            for l in wb.text.iter().chain(std::iter::once(&wb.line)) {
                for e in l.iter() {
                    match e {
                        TaggedLineElement::Str(ts) => seen += ts.s.chars().count(),
                        TaggedLineElement::FragmentStart(n) => got_marks.push((n.clone(), seen.saturating_sub(line_len))),
                    }
                }
            }
            assert!(got_marks == want_marks, "fragment markers of the word lost or misplaced: {:?}, want {:?}", got_marks, want_marks);
            assert!(wb.word.is_empty(), "word buffer not emptied");
        }
    }
}

// ---------------------------------------------------------------------
// Native replay target for mirsym's fmt_links_wrap: one footnote line of the given tagged pieces
// is wrapped to the width; no emitted line may be wider (when every character fits) and no
// character may be lost.
// ---------------------------------------------------------------------
pub(crate) fn m_fmt_links() {
    let width: usize = kani::any();
    let wrap_links: bool = kani::any();
    let npieces: u8 = kani::any();
    kani::assume(width <= 4096 && npieces <= 4);
    let mut opts = RenderOptions::default();
    opts.wrap_links = wrap_links;
    let mut r: SubRenderer<PlainDecorator> = SubRenderer::new(width, opts, PlainDecorator::new());
    let mut line: TaggedLine<()> = TaggedLine::new();
    let mut all = String::new();
    for _ in 0..npieces {
        let n: u8 = kani::any();
        kani::assume(n <= 4);
        let mut piece = String::new();
        for _ in 0..n {
            let c: u32 = kani::any();
            piece.push(char::from_u32(c).unwrap_or('?'));
        }
        all.push_str(&piece);
        // push() keeps pieces apart even when their tags are equal, like the decorator's finalise does
        line.push(TaggedLineElement::Str(TaggedString { s: piece, tag: () }));
    }
    let fits = all.chars().all(|c| UnicodeWidthChar::width(c).unwrap_or(0) <= width);
    r.fmt_links(vec![line]);
    let mut got = String::new();
    let mut n = 0;
    for l in r.lines.iter() {
        if let RenderLine::Text(tl) = l {
            n += 1;
            if wrap_links && fits {
                assert!(tl.width() <= width, "footnote line wider than the width: {} > {} ({:?})", tl.width(), width, all);
            }
            got.extend(tl.chars());
        }
    }
    assert!(n >= 1, "no footnote line emitted");
    assert!(got == all.replace('\n', " "), "footnote characters lost or reordered: {:?} from {:?}", got, all);
}

crate::verif_common::registry! {
    m_fmt_links, m_hard_wrap, m_wrap_step,
    t1_width_minus, t2_wrap_width,
    t3_border_join_step, t3_border_stretch, t3_border_merge, t3_border_merge_small, t3_border_glyphs, t3_border_vertical_lines,
    t4_tagged_push_str, t4_tagged_insert_front, t4_tagged_push_char, t4_tagged_frag_consume, t5_annotation_stack, v1_vert_row_borders, 
}
