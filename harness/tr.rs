// Harnesses that are a child module of `crate::render::text_renderer`
// (`verif_tr`): they can see the private items of text_renderer.rs.
#![allow(dead_code, unused_imports, unused_variables, unused_mut)]

use super::*;
#[cfg(not(kani))]
use crate::verif_common::kani;
use crate::verif_common::*;

fn any_options() -> RenderOptions {
    let has_wrap: bool = kani::any();
    let ww: usize = kani::any();
    RenderOptions {
        wrap_width: if has_wrap { Some(ww) } else { None },
        allow_width_overflow: kani::any(),
        pad_block_width: kani::any(),
        raw: kani::any(),
        draw_borders: kani::any(),
        wrap_links: kani::any(),
        include_link_footnotes: kani::any(),
        use_unicode_strikeout: kani::any(),
    }
}

// ---------------------------------------------------------------------
// T1  SubRenderer::width_minus  (C01, C02, C07, C11)
// ---------------------------------------------------------------------
#[cfg_attr(kani, kani::proof)]
#[cfg_attr(kani, kani::unwind(2))]
pub(crate) fn t1_width_minus() {
    let width: usize = kani::any();
    let prefix: usize = kani::any();
    let min_width: usize = kani::any();
    let mut opts = any_options();
    opts.allow_width_overflow = false;
    let r_strict = SubRenderer::new(width, opts.clone(), TrivialDecorator::new());
    opts.allow_width_overflow = true;
    let r_over = SubRenderer::new(width, opts, TrivialDecorator::new());

    let strict = r_strict.width_minus(prefix, min_width);
    let over = r_over.width_minus(prefix, min_width);

    // With overflow allowed the call never fails.
    assert!(over.is_ok());
    let w_over = over.unwrap();
    assert!(w_over >= min_width);
    match strict {
        Ok(w) => {
            // Allowing overflow is a no-op for a width that already fits.
            assert!(w == w_over);
            assert!(w >= min_width);
            // Content plus prefix fits the parent exactly.
            if prefix <= width {
                assert!(w + prefix == width);
            } else {
                assert!(w == 0 && min_width == 0);
            }
            kani::cover!(prefix > width);
            kani::cover!(w > 0);
        }
        Err(_) => {
            // It only fails when the remaining width cannot hold min_width,
            // and then the overflowed block is exactly min_width wide.
            assert!(width.saturating_sub(prefix) < min_width);
            assert!(w_over == min_width);
            kani::cover!(true);
        }
    }
    std::mem::forget(r_strict);
    std::mem::forget(r_over);
}

// ---------------------------------------------------------------------
// T2  get_wrapping_or_insert: wrap width = min(max_wrap_width, width) (C02, C15)
// ---------------------------------------------------------------------
#[cfg_attr(kani, kani::proof)]
#[cfg_attr(kani, kani::unwind(2))]
pub(crate) fn t2_wrap_width() {
    let width: usize = kani::any();
    let opts = any_options();
    let mut slot: Option<WrappedBlock<Vec<()>>> = None;
    let wb = get_wrapping_or_insert::<TrivialDecorator>(&mut slot, &opts, width);
    match opts.wrap_width {
        Some(m) => {
            assert!(wb.width <= width && wb.width <= m);
            assert!(wb.width == width || wb.width == m);
            if m >= width {
                assert!(wb.width == width); // option is a no-op
            }
            kani::cover!(m < width);
            kani::cover!(m >= width);
        }
        None => assert!(wb.width == width),
    }
    assert!(wb.pad_blocks == opts.pad_block_width);
    assert!(wb.allow_overflow == opts.allow_width_overflow);
    assert!(wb.text.is_empty() && wb.line.len == 0 && wb.wordlen == 0 && wb.wslen == 0);
    // A second call returns the existing block unchanged, whatever is passed.
    let w0 = wb.width;
    let width2: usize = kani::any();
    let wb2 = get_wrapping_or_insert::<TrivialDecorator>(&mut slot, &opts, width2);
    assert!(wb2.width == w0);
    std::mem::forget(slot);
}

crate::verif_common::registry! {
    t1_width_minus, t2_wrap_width,
}
